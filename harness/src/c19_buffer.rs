//! C19 - the uninitialized-buffer abstraction never overruns and counts exactly.
//!
//! Model-based history check. A history is a tree of views (root view on a backing store, nested
//! views on `&mut BufferRef`, each optionally behind up to two `cap_at`s) with writes, iterator
//! extends, raw `uninitialized_mut`/`advance` writes, reader fills and early exits. Because a nested
//! view starts where its parent's initialized part ends and the parent advances by the child's count
//! on release, the reference model is one linear byte string `written` plus, per view, a `limit`
//! (global offset the view must never cross).
//!
//! The backing memory is pre-filled with a pattern and (where the store allows it) sits inside a
//! larger allocation with canary bytes on both sides; every byte the model does not allow the
//! library to touch must still hold the pattern/canary afterwards.
//!
//! Sections: `smoke_roomy` (canonical histories that never fill the store, run first and in order),
//! `smoke_slice` (capacity errors on `&mut [u8]` only), `advance_past_end` (the assert behind the
//! unsafe `advance`), `small_exhaustive` (every capacity x pre-existing length x caps x write lengths
//! around the capacity), `histories` (generated view trees), probe `cap_at_above_remaining`.
//!
//! The AddressSanitizer half of the property is not part of this module (separate sanitizer build).

use crate::util::{hex, Canary, CANARY_BYTE};
use crate::{burn, ensure, ensure_eq, guard, pick, set_fuel, unlimited_fuel, Ctx, Outcome, PResult};
use arrayvec::{Array, ArrayVec};
use libtw2_buffer::{with_buffer, Buffer, BufferRef, CapacityError, ReadBuffer, ReadBufferRef, ToBufferRef};
use proptest::prelude::*;
use serde::{Deserialize, Serialize};
use serde_json::json;
use std::cell::Cell;
use std::io::{self, BufReader, Read};
use std::mem::ManuallyDrop;
use std::sync::atomic::{AtomicU64, Ordering};

/// Fill byte of all memory a view may write to but has not written yet.
const PATTERN: u8 = 0x5A;
const ITER_PANIC: &str = "c19: the generated iterator panics here";
const KEY_CAP_ABOVE: &str = "cap_at_above_remaining";
const AV_SIZES: [usize; 5] = [0, 1, 8, 32, 2048];

// ---------------------------------------------------------------------------
// Case

/// A length inside `0..=cap`, from the start or from the end (stays valid while `cap` shrinks).
#[derive(Clone, Debug, Hash, Serialize, Deserialize)]
pub enum Len {
    Start(u16),
    End(u16),
    /// cap * f / 256
    Frac(u8),
}

impl Len {
    fn resolve(&self, cap: usize) -> usize {
        match *self {
            Len::Start(k) => (k as usize).min(cap),
            Len::End(k) => cap - (k as usize).min(cap),
            Len::Frac(f) => cap * f as usize / 256,
        }
    }
}

#[derive(Clone, Debug, Hash, Serialize, Deserialize)]
pub enum Store {
    /// `&mut Vec<u8>` with capacity `cap` and pre-existing length `len`. `real == false`: the Vec
    /// header points into a canary window (never reallocated or freed through the Vec).
    Vec { cap: u8, len: Len, real: bool },
    /// `&mut ArrayVec<[u8; AV_SIZES[n]]>` with pre-existing length `len`.
    ArrayVec { n: u8, len: Len },
    /// `&mut [u8]` of length `cap`.
    Slice { cap: u8 },
    /// `&mut &mut [u8]` of length `cap`.
    SliceRef { cap: u8 },
}

/// Argument of `cap_at`, relative to the capacity the capped buffer has left.
#[derive(Clone, Debug, Hash, Serialize, Deserialize)]
pub enum Cap {
    /// remaining - k (saturating); `Minus(0)` caps exactly at the remaining capacity
    Minus(u8),
    /// remaining + 1 + k
    Plus(u8),
    Abs(u16),
    Huge,
}

#[derive(Clone, Debug, Hash, Serialize, Deserialize)]
pub enum ReaderSpec {
    Slice(Vec<u8>),
    RepeatTake { byte: u8, n: u16 },
    Empty,
    Chain { first: Vec<u8>, byte: u8, n: u16 },
    Buf { data: Vec<u8>, cap: u8 },
}

#[derive(Clone, Debug, Hash, Serialize, Deserialize)]
pub enum Op {
    /// `write(bytes)`
    Write(Vec<u8>),
    /// `extend` with an iterator yielding `n` bytes
    Extend { n: u16, start: u8 },
    /// `extend` with an iterator that never ends (must come back with a capacity error)
    ExtendEndless { start: u8 },
    /// `extend` with an iterator that yields `n` bytes and then panics (early exit by unwinding)
    ExtendPanic { n: u8, start: u8 },
    /// `write` of exactly `remaining - leave` bytes
    Fill { leave: u8, start: u8 },
    /// `write` of `remaining + 1 + extra` bytes
    Over { extra: u8, start: u8 },
    /// the way the codecs write: `uninitialized_mut()`, store k <= remaining bytes, `advance(k)`
    Raw { k: u16, start: u8 },
    /// `reader.read_buffer(<nested view, optionally capped>)`, `times` times with the same reader
    Read { reader: ReaderSpec, times: u8, caps: Vec<Cap> },
    /// `with_buffer(&mut view [.cap_at(..)], |nested| ..)`
    Nested { caps: Vec<Cap>, view: Box<View> },
}

#[derive(Clone, Debug, Hash, Serialize, Deserialize)]
pub enum OnError {
    Continue,
    /// the closure of this view returns right after the first capacity error
    ExitView,
    /// ... and so do all enclosing closures
    ExitAll,
}

#[derive(Clone, Debug, Hash, Serialize, Deserialize)]
pub enum End {
    Drop,
    Initialized,
    /// `reader.read_buffer_ref(view)` (consumes the view, returns its initialized part)
    ReadRef(ReaderSpec),
}

#[derive(Clone, Debug, Hash, Serialize, Deserialize)]
pub struct View {
    pub ops: Vec<Op>,
    pub on_error: OnError,
    pub end: End,
}

#[derive(Clone, Debug, Hash, Serialize, Deserialize)]
pub struct Case {
    pub store: Store,
    pub caps: Vec<Cap>,
    pub view: View,
}

// ---------------------------------------------------------------------------
// Data

fn data_byte(start: u8, i: usize) -> u8 {
    let x = start.wrapping_add(i as u8);
    if x == PATTERN {
        PATTERN + 1
    } else {
        x
    }
}

fn gen_bytes(start: u8, n: usize) -> Vec<u8> {
    (0..n).map(|i| data_byte(start, i)).collect()
}

fn pre_byte(i: usize) -> u8 {
    0xC0 | (i as u8 & 0x1f)
}

fn counted_iter<'a>(start: u8, n: usize, pulled: &'a Cell<usize>) -> impl Iterator<Item = u8> + 'a {
    (0..n).map(move |i| {
        burn();
        pulled.set(pulled.get() + 1);
        data_byte(start, i)
    })
}

// ---------------------------------------------------------------------------
// Model

#[derive(Default, Clone, Debug)]
struct Stats {
    ops: u32,
    views: u32,
    exhaustion: u32,
    nested: u32,
    capped: u32,
    cap_above: u32,
    cap_clamped: u32,
    reads: u32,
    reads_nonempty: u32,
    raw: u32,
    endless: u32,
    exit_view: bool,
    exit_all: bool,
    unused_view: bool,
    max_depth: u32,
    slices: u32,
}

struct Pending {
    pos: usize,
    /// the bytes the interrupted `extend` may have appended (a prefix of them)
    data: Vec<u8>,
}

struct Model<'d> {
    /// address of global offset 0 (first byte the root view may write)
    base: usize,
    /// bytes appended since the root view was created, in order
    written: Vec<u8>,
    /// global offset below which memory may legitimately differ from PATTERN (refused writes may
    /// leave a prefix of their data behind the counted bytes, but never past the view's limit)
    dirty_hi: usize,
    /// slices handed out by `initialized()` / readers: (slice, global offset, what)
    slices: Vec<(&'d [u8], usize, &'static str)>,
    pending: Option<Pending>,
    abort: bool,
    allow_above: bool,
    st: Stats,
}

/// Resolves a `cap_at` chain against `rem`; returns the arguments to pass and the capacity left.
fn resolve_caps(caps: &[Cap], rem: usize, allow_above: bool, st: &mut Stats) -> (Vec<usize>, usize) {
    let mut eff = rem;
    let mut out = Vec::with_capacity(caps.len());
    for c in caps.iter().take(2) {
        let mut v = match *c {
            Cap::Minus(k) => eff.saturating_sub(k as usize),
            Cap::Plus(k) => eff + 1 + k as usize,
            Cap::Abs(n) => n as usize,
            Cap::Huge => usize::MAX,
        };
        if v > eff {
            if allow_above {
                st.cap_above += 1;
            } else {
                st.cap_clamped += 1;
                v = eff;
            }
        }
        st.capped += 1;
        eff = eff.min(v);
        out.push(v);
    }
    (out, eff)
}

/// `with_buffer` on `buf` behind zero, one or two `cap_at`s.
fn drive<'d, B, F, R>(buf: B, caps: &[usize], f: F) -> R
where
    B: Buffer<'d>,
    F: for<'b> FnOnce(BufferRef<'d, 'b>) -> R,
{
    match *caps {
        [] => with_buffer(buf, f),
        [a] => with_buffer(buf.cap_at(a), f),
        [a, b] => with_buffer(buf.cap_at(a).cap_at(b), f),
        _ => unreachable!(),
    }
}

fn read_into<'d, R: ReadBuffer, B: Buffer<'d>>(r: &mut R, buf: B, caps: &[usize]) -> io::Result<&'d [u8]> {
    match *caps {
        [] => r.read_buffer(buf),
        [a] => r.read_buffer(buf.cap_at(a)),
        [a, b] => r.read_buffer(buf.cap_at(a).cap_at(b)),
        _ => unreachable!(),
    }
}

struct ReaderModel {
    stream: Vec<u8>,
    consumed: usize,
    exact: bool,
    name: &'static str,
}

impl ReaderModel {
    fn new(spec: &ReaderSpec) -> ReaderModel {
        let (stream, exact, name) = match spec {
            ReaderSpec::Slice(d) => (d.clone(), true, "&[u8]"),
            ReaderSpec::RepeatTake { byte, n } => (vec![*byte; *n as usize], true, "Take<Repeat>"),
            ReaderSpec::Empty => (Vec::new(), true, "Empty"),
            ReaderSpec::Chain { first, byte, n } => {
                let mut s = first.clone();
                s.extend(std::iter::repeat(*byte).take(*n as usize));
                (s, false, "Chain<&[u8], Take<Repeat>>")
            }
            ReaderSpec::Buf { data, .. } => (data.clone(), false, "BufReader<&[u8]>"),
        };
        ReaderModel {
            stream,
            consumed: 0,
            exact,
            name,
        }
    }
    /// `got` = the bytes one `read` call delivered into a buffer with `rem` bytes left.
    fn check(&mut self, got: &[u8], rem: usize) -> Result<(), String> {
        let left = &self.stream[self.consumed..];
        ensure!(
            got.len() <= rem,
            "{}: read reported {} bytes into a buffer with {} bytes left",
            self.name,
            got.len(),
            rem
        );
        ensure!(
            got.len() <= left.len() && got == &left[..got.len()],
            "{}: bytes reported as read [{}] are not the next bytes of the reader [{}]",
            self.name,
            hex(got),
            hex(&left[..left.len().min(got.len() + 4)])
        );
        if self.exact {
            ensure_eq!(got.len(), rem.min(left.len()), "{}: number of bytes read (buffer has {} left)", self.name, rem);
        } else if rem > 0 && !left.is_empty() {
            ensure!(!got.is_empty(), "{}: read nothing although reader and buffer both have room", self.name);
        }
        self.consumed += got.len();
        Ok(())
    }
}

macro_rules! with_reader {
    ($spec:expr, $r:ident => $body:expr) => {
        match $spec {
            ReaderSpec::Slice(d) => {
                let mut $r = &d[..];
                $body
            }
            ReaderSpec::RepeatTake { byte, n } => {
                let mut $r = io::repeat(*byte).take(*n as u64);
                $body
            }
            ReaderSpec::Empty => {
                let mut $r = io::empty();
                $body
            }
            ReaderSpec::Chain { first, byte, n } => {
                let mut $r = (&first[..]).chain(io::repeat(*byte).take(*n as u64));
                $body
            }
            ReaderSpec::Buf { data, cap } => {
                let mut $r = BufReader::with_capacity(*cap as usize, &data[..]);
                $body
            }
        }
    };
}

impl<'d> Model<'d> {
    /// Invariants of a live view: remaining() and the uninitialized part agree with the model and
    /// nothing behind the counted bytes has been touched.
    fn check_view(&self, b: &mut BufferRef<'d, '_>, limit: usize, when: &str) -> Result<(), String> {
        let pos = self.written.len();
        ensure!(pos <= limit, "model: {} bytes counted in a view limited to {} ({})", pos, limit, when);
        let want = limit - pos;
        ensure_eq!(b.remaining(), want, "remaining() {} ({} bytes written so far)", when, pos);
        let tail = unsafe { b.uninitialized_mut() };
        ensure_eq!(tail.len(), want, "uninitialized_mut().len() {}", when);
        if !tail.is_empty() {
            ensure_eq!(
                tail.as_ptr() as usize,
                self.base + pos,
                "uninitialized_mut() {} does not start right behind the {} initialized bytes",
                when,
                pos
            );
        }
        let from = self.dirty_hi.saturating_sub(pos).min(tail.len());
        if let Some(i) = tail[from..].iter().position(|&x| x != PATTERN) {
            return Err(format!(
                "{}: byte at offset {} was modified (0x{:02x}) although only {} bytes are counted as initialized",
                when,
                pos + from + i,
                tail[from + i],
                pos
            ));
        }
        Ok(())
    }

    /// Book-keeping after a `write`/`extend` of `data` (the complete data offered) that returned `res`.
    /// Returns whether the call was refused.
    fn settle(
        &mut self,
        b: &BufferRef<'d, '_>,
        limit: usize,
        data: &[u8],
        res: Result<(), CapacityError>,
        what: &str,
    ) -> Result<bool, String> {
        let pos = self.written.len();
        let rem = limit - pos;
        let after = b.remaining();
        ensure!(after <= rem, "{}: remaining() grew from {} to {}", what, rem, after);
        let appended = rem - after;
        if data.len() <= rem {
            ensure!(
                res.is_ok(),
                "{}: {} bytes refused with a capacity error although {} bytes were left",
                what,
                data.len(),
                rem
            );
            ensure_eq!(appended, data.len(), "{}: bytes counted for an accepted write", what);
        } else {
            ensure!(
                res.is_err(),
                "{}: {} bytes accepted although only {} bytes were left",
                what,
                data.len(),
                rem
            );
            self.st.exhaustion += 1;
        }
        ensure!(appended <= data.len(), "{}: {} bytes counted for {} bytes offered", what, appended, data.len());
        self.written.extend_from_slice(&data[..appended]);
        self.dirty_hi = self.dirty_hi.max(pos + data.len().min(rem));
        Ok(res.is_err())
    }
}

fn do_reads<'d, R: ReadBuffer>(
    r: &mut R,
    spec: &ReaderSpec,
    b: &mut BufferRef<'d, '_>,
    times: u8,
    caps: &[Cap],
    limit: usize,
    m: &mut Model<'d>,
) -> Result<(), String> {
    let mut rm = ReaderModel::new(spec);
    for t in 0..times.clamp(1, 4) {
        burn();
        let pos = m.written.len();
        let rem = limit - pos;
        let (args, eff) = resolve_caps(caps, rem, m.allow_above, &mut m.st);
        let got: &'d [u8] = read_into(r, &mut *b, &args)
            .map_err(|e| format!("{}: read_buffer #{} failed: {}", rm.name, t, e))?;
        rm.check(got, eff)?;
        m.written.extend_from_slice(got);
        m.dirty_hi = m.dirty_hi.max(pos + got.len());
        m.slices.push((got, pos, "read_buffer()"));
        m.st.reads += 1;
        m.st.nested += 1;
        if !got.is_empty() {
            m.st.reads_nonempty += 1;
        }
        m.check_view(b, limit, "after read_buffer")?;
    }
    Ok(())
}

/// Applies one op; Ok(true) = the op ended in a capacity error.
fn apply_op<'d>(
    b: &mut BufferRef<'d, '_>,
    op: &Op,
    limit: usize,
    depth: u32,
    m: &mut Model<'d>,
) -> Result<bool, String> {
    let pos = m.written.len();
    let rem = limit - pos;
    m.st.ops += 1;
    match op {
        Op::Write(data) => {
            let r = b.write(data);
            m.settle(b, limit, data, r, "write")
        }
        Op::Fill { leave, start } => {
            let data = gen_bytes(*start, rem.saturating_sub(*leave as usize));
            let r = b.write(&data);
            m.settle(b, limit, &data, r, "write")
        }
        Op::Over { extra, start } => {
            let data = gen_bytes(*start, rem + 1 + *extra as usize);
            let r = b.write(&data);
            m.settle(b, limit, &data, r, "write")
        }
        Op::Extend { n, start } => {
            let pulled = Cell::new(0);
            let r = b.extend(counted_iter(*start, *n as usize, &pulled));
            let data = gen_bytes(*start, *n as usize);
            m.settle(b, limit, &data, r, "extend")
        }
        Op::ExtendEndless { start } => {
            let pulled = Cell::new(0);
            let start = *start;
            let r = b.extend((0usize..).map(|i| {
                burn();
                pulled.set(pulled.get() + 1);
                data_byte(start, i)
            }));
            m.st.endless += 1;
            let data = gen_bytes(start, rem + 1);
            m.settle(b, limit, &data, r, "extend(endless iterator)")
        }
        Op::ExtendPanic { n, start } => {
            let n = *n as usize;
            let pulled = Cell::new(0);
            m.pending = Some(Pending {
                pos,
                data: gen_bytes(*start, n.min(rem)),
            });
            let r = b.extend(counted_iter(*start, n, &pulled).chain(std::iter::once_with(|| -> u8 { panic!("{}", ITER_PANIC) })));
            // came back: the end of the iterator was not reached
            m.pending = None;
            let data = gen_bytes(*start, n + 1);
            m.settle(b, limit, &data, r, "extend(iterator that panics at its end)")
        }
        Op::Raw { k, start } => {
            let k = pick(*k, rem + 1);
            let data = gen_bytes(*start, k);
            unsafe {
                let u = b.uninitialized_mut();
                ensure_eq!(u.len(), rem, "uninitialized_mut().len()");
                u[..k].copy_from_slice(&data);
                b.advance(k);
            }
            m.written.extend_from_slice(&data);
            m.dirty_hi = m.dirty_hi.max(pos + k);
            m.st.raw += 1;
            Ok(false)
        }
        Op::Read { reader, times, caps } => {
            with_reader!(reader, r => do_reads(&mut r, reader, b, *times, caps, limit, m))?;
            Ok(false)
        }
        Op::Nested { caps, view } => {
            let (args, eff) = resolve_caps(caps, rem, m.allow_above, &mut m.st);
            m.st.nested += 1;
            drive(&mut *b, &args, |c| run_view(c, view, pos + eff, depth + 1, m))?;
            Ok(false)
        }
    }
}

fn run_view<'d>(mut b: BufferRef<'d, '_>, view: &View, limit: usize, depth: u32, m: &mut Model<'d>) -> Result<(), String> {
    let start = m.written.len();
    m.st.views += 1;
    m.st.max_depth = m.st.max_depth.max(depth);
    m.check_view(&mut b, limit, "of a new view")?;
    if view.ops.is_empty() && matches!(view.end, End::Drop) {
        m.st.unused_view = true;
    }
    for op in &view.ops {
        burn();
        let refused = apply_op(&mut b, op, limit, depth, m)?;
        if m.abort {
            return Ok(());
        }
        m.check_view(&mut b, limit, "after an operation")?;
        if refused {
            match view.on_error {
                OnError::Continue => {}
                OnError::ExitView => {
                    m.st.exit_view = true;
                    return Ok(());
                }
                OnError::ExitAll => {
                    m.st.exit_all = true;
                    m.abort = true;
                    return Ok(());
                }
            }
        }
    }
    match &view.end {
        End::Drop => {}
        End::Initialized => {
            let s = b.initialized();
            ensure_eq!(hex(s), hex(&m.written[start..]), "initialized() of a view at depth {}", depth);
            m.slices.push((s, start, "initialized()"));
            m.st.slices += 1;
        }
        End::ReadRef(spec) => {
            let pos = m.written.len();
            let rem = limit - pos;
            let mut rm = ReaderModel::new(spec);
            let s: &'d [u8] = with_reader!(spec, r => ReadBufferRef::read_buffer_ref(&mut r, b))
                .map_err(|e| format!("{}: read_buffer_ref failed: {}", rm.name, e))?;
            // read_buffer_ref hands out the whole initialized part of the view it consumed
            ensure!(
                s.len() >= pos - start && hex(&s[..pos - start]) == hex(&m.written[start..]),
                "read_buffer_ref: result [{}] does not begin with the {} bytes written through the view before [{}]",
                hex(s),
                pos - start,
                hex(&m.written[start..])
            );
            let got = &s[pos - start..];
            rm.check(got, rem)?;
            m.written.extend_from_slice(got);
            m.dirty_hi = m.dirty_hi.max(pos + got.len());
            m.slices.push((s, start, "read_buffer_ref()"));
            m.st.reads += 1;
            if !got.is_empty() {
                m.st.reads_nonempty += 1;
            }
        }
    }
    Ok(())
}

/// What is left of a history once every view has been released (free of the data lifetime).
struct RootOut {
    written: Vec<u8>,
    dirty_hi: usize,
    /// Some = the history ended by unwinding out of this interrupted extend
    pending: Option<Pending>,
    limit: usize,
    st: Stats,
}

fn run_root<'d, B: Buffer<'d>>(buf: B, case: &Case, base: usize, root_rem: usize, allow_above: bool) -> Result<RootOut, String> {
    let mut st = Stats::default();
    let (args, eff) = resolve_caps(&case.caps, root_rem, allow_above, &mut st);
    let mut m = Model {
        base,
        written: Vec::new(),
        dirty_hi: 0,
        slices: Vec::new(),
        pending: None,
        abort: false,
        allow_above,
        st,
    };
    let r = guard(|| drive(buf, &args, |b| run_view(b, &case.view, eff, 0, &mut m)));
    match r {
        Ok(Ok(())) => m.pending = None,
        Ok(Err(e)) => return Err(e),
        Err(p) => {
            if p.fuel || p.message != ITER_PANIC || m.pending.is_none() {
                return Err(format!("unexpected {} ({} bytes written before)", p, m.written.len()));
            }
        }
    }
    // every view is released now; the slices handed out must still be the bytes written
    for (s, at, what) in &m.slices {
        ensure!(
            s.is_empty() || s.as_ptr() as usize == base + at,
            "{}: slice does not lie at offset {} of the buffer",
            what,
            at
        );
        ensure_eq!(hex(s), hex(&m.written[*at..*at + s.len()]), "{}: slice contents after all views were released", what);
    }
    Ok(RootOut {
        written: m.written,
        dirty_hi: m.dirty_hi,
        pending: m.pending,
        limit: eff,
        st: m.st,
    })
}

/// `grown`: how much the container's length grew (None: the store has no length).
/// `region`: the memory from the first byte the root view could write to the end of the store.
fn final_check(out: &RootOut, grown: Option<usize>, region: &[u8], store: &str) -> Result<(), String> {
    let counted = out.written.len();
    let mut expect = out.written.clone();
    let mut may_touch = out.dirty_hi.max(counted);
    let len = match (&out.pending, grown) {
        (None, Some(g)) => {
            ensure_eq!(g, counted, "{}: length growth after release vs bytes written", store);
            g
        }
        (None, None) => counted,
        (Some(p), g) => {
            // unwound out of an extend: any prefix of its data may have been appended
            debug_assert_eq!(p.pos, counted);
            let g = g.unwrap_or(counted);
            ensure!(
                g >= counted && g <= counted + p.data.len(),
                "{}: length grew by {} after unwinding; {} bytes were written before the interrupted extend of {} bytes",
                store,
                g,
                counted,
                p.data.len()
            );
            expect.extend_from_slice(&p.data[..g - counted]);
            may_touch = may_touch.max(counted + p.data.len());
            g
        }
    };
    ensure!(len <= out.limit, "{}: {} bytes counted, capacity (after cap_at) was {}", store, len, out.limit);
    ensure!(len <= region.len(), "{}: {} bytes counted, store has room for {}", store, len, region.len());
    ensure_eq!(hex(&region[..len]), hex(&expect), "{}: contents after release", store);
    let from = may_touch.min(region.len());
    if let Some(i) = region[from..].iter().position(|&x| x != PATTERN) {
        return Err(format!(
            "{}: byte at offset {} behind the {} written bytes was modified (0x{:02x}); capacity after cap_at {}, store room {}",
            store,
            from + i,
            len,
            region[from + i],
            out.limit,
            region.len()
        ));
    }
    Ok(())
}

fn check_pre(region: &[u8], pre: usize, store: &str) -> Result<(), String> {
    for i in 0..pre {
        ensure!(region[i] == pre_byte(i), "{}: pre-existing byte {} changed to 0x{:02x}", store, i, region[i]);
    }
    Ok(())
}

#[repr(C)]
struct Guarded<A: Array<Item = u8>> {
    before: [u8; 64],
    av: ArrayVec<A>,
    after: [u8; 64],
}

fn check_arrayvec<A: Array<Item = u8>>(full: A, len: &Len, case: &Case, allow_above: bool) -> Result<RootOut, String> {
    let mut g = Guarded {
        before: [CANARY_BYTE; 64],
        av: ArrayVec::from(full),
        after: [CANARY_BYTE; 64],
    };
    let n = g.av.capacity();
    let pre = len.resolve(n);
    for i in 0..pre {
        g.av[i] = pre_byte(i);
    }
    g.av.truncate(pre);
    let base = g.av.as_ptr() as usize + pre;
    let out = run_root(&mut g.av, case, base, n - pre, allow_above)?;
    let after = g.av.len();
    ensure!(after <= n, "ArrayVec<{}>: length {} after release", n, after);
    ensure!(
        g.before.iter().chain(g.after.iter()).all(|&x| x == CANARY_BYTE),
        "ArrayVec<{}>: memory next to the ArrayVec was modified",
        n
    );
    ensure_eq!(g.av.as_ptr() as usize + pre, base, "ArrayVec moved");
    // all n bytes were initialized (the ArrayVec was built from a full array)
    let region = unsafe { std::slice::from_raw_parts(g.av.as_ptr(), n) };
    check_pre(region, pre, "ArrayVec")?;
    let grown = after
        .checked_sub(pre)
        .ok_or_else(|| format!("ArrayVec<{}>: length shrank from {} to {}", n, pre, after))?;
    final_check(&out, Some(grown), &region[pre..], "ArrayVec")?;
    Ok(out)
}

fn check_store(case: &Case, allow_above: bool) -> Result<(RootOut, &'static str), String> {
    match &case.store {
        Store::Vec { cap, len, real: false } => {
            let cap = *cap as usize;
            let pre = len.resolve(cap);
            let mut can = Canary::new(cap);
            for (i, x) in can.window().iter_mut().enumerate() {
                *x = if i < pre { pre_byte(i) } else { PATTERN };
            }
            let p = can.window().as_mut_ptr();
            // A Vec header over the canary window. It is never grown, shrunk or dropped, so the
            // allocator never sees the pointer; the library only uses len/capacity/as_mut_ptr/set_len.
            let mut v = ManuallyDrop::new(unsafe { Vec::from_raw_parts(p, pre, cap) });
            let out = run_root(&mut *v, case, p as usize + pre, cap - pre, allow_above)?;
            let (after, cap_after, ptr_after) = (v.len(), v.capacity(), v.as_ptr() as usize);
            ensure!(after <= cap, "Vec: length {} after release exceeds the capacity {}", after, cap);
            ensure_eq!(cap_after, cap, "Vec: capacity changed");
            ensure_eq!(ptr_after, p as usize, "Vec: reallocated");
            ensure!(can.intact(), "Vec: memory outside the allocation (capacity {}) was modified", cap);
            let region = can.window_ref();
            check_pre(region, pre, "Vec")?;
            let grown = after
                .checked_sub(pre)
                .ok_or_else(|| format!("Vec: length shrank from {} to {}", pre, after))?;
            final_check(&out, Some(grown), &region[pre..], "Vec")?;
            Ok((out, "store_vec"))
        }
        Store::Vec { cap, len, real: true } => {
            let mut v: Vec<u8> = Vec::with_capacity(*cap as usize);
            let cap = v.capacity();
            let pre = len.resolve(cap);
            v.extend((0..pre).map(pre_byte));
            for x in v.spare_capacity_mut() {
                x.write(PATTERN);
            }
            let p = v.as_ptr() as usize;
            let out = run_root(&mut v, case, p + pre, cap - pre, allow_above)?;
            let after = v.len();
            ensure!(after <= cap, "Vec: length {} after release exceeds the capacity {}", after, cap);
            ensure_eq!(v.capacity(), cap, "Vec: capacity changed");
            ensure_eq!(v.as_ptr() as usize, p, "Vec: reallocated");
            // all `cap` bytes were initialized above
            let region = unsafe { std::slice::from_raw_parts(v.as_ptr(), cap) };
            check_pre(region, pre, "Vec")?;
            let grown = after
                .checked_sub(pre)
                .ok_or_else(|| format!("Vec: length shrank from {} to {}", pre, after))?;
            final_check(&out, Some(grown), &region[pre..], "Vec")?;
            Ok((out, "store_vec"))
        }
        Store::ArrayVec { n, len } => {
            let out = match (*n).min(4) {
                0 => check_arrayvec([PATTERN; 0], len, case, allow_above)?,
                1 => check_arrayvec([PATTERN; 1], len, case, allow_above)?,
                2 => check_arrayvec([PATTERN; 8], len, case, allow_above)?,
                3 => check_arrayvec([PATTERN; 32], len, case, allow_above)?,
                _ => check_arrayvec([PATTERN; 2048], len, case, allow_above)?,
            };
            Ok((out, "store_arrayvec"))
        }
        Store::Slice { cap } => {
            let cap = *cap as usize;
            let mut can = Canary::new(cap);
            can.window().fill(PATTERN);
            let base = can.range().0;
            let out = run_root(can.window(), case, base, cap, allow_above)?;
            ensure!(can.intact(), "slice: memory outside the {}-byte slice was modified", cap);
            final_check(&out, None, can.window_ref(), "slice")?;
            Ok((out, "store_slice"))
        }
        Store::SliceRef { cap } => {
            let cap = *cap as usize;
            let mut can = Canary::new(cap);
            can.window().fill(PATTERN);
            let base = can.range().0;
            let (after_len, after_ptr, out) = {
                let mut s: &mut [u8] = can.window();
                // `&'d mut &'d mut [u8]` borrows `s` for as long as `s` exists; go through a raw
                // pointer to be able to look at `s` after the view was released.
                let p: *mut &mut [u8] = &mut s;
                let out = run_root(unsafe { &mut *p }, case, base, cap, allow_above)?;
                (s.len(), s.as_ptr() as usize, out)
            };
            ensure!(can.intact(), "slice reference: memory outside the {}-byte slice was modified", cap);
            ensure!(after_len <= cap, "slice reference: narrowed to {} bytes of a {}-byte slice", after_len, cap);
            ensure!(
                after_len == 0 || after_ptr == base,
                "slice reference: not narrowed to a prefix of the original slice"
            );
            final_check(&out, Some(after_len), can.window_ref(), "slice reference")?;
            Ok((out, "store_slice_ref"))
        }
    }
}

pub fn check_case(case: &Case, allow_above: bool, excluded: &AtomicU64) -> PResult {
    set_fuel(2_000_000);
    let r = check_store(case, allow_above);
    unlimited_fuel();
    let (out, kind) = r?;
    let st = &out.st;
    if st.cap_clamped > 0 {
        excluded.fetch_add(1, Ordering::Relaxed);
    }
    Ok(Outcome::nt(st.exhaustion > 0 && (st.nested > 0 || st.capped > 0))
        .class(kind)
        .class_if(st.nested > 0, "nested_view")
        .class_if(st.capped > 0, "capped_view")
        .class_if(st.cap_above > 0, "cap_above_remaining")
        .class_if(st.cap_clamped > 0, "cap_above_clamped_known_finding")
        .class_if(st.exhaustion > 0, "capacity_error")
        .class_if(st.exhaustion > 0 && st.nested > 0, "capacity_error_and_nested")
        .class_if(st.exhaustion > 0 && st.capped > 0, "capacity_error_and_capped")
        .class_if(st.max_depth >= 2, "depth_ge_2")
        .class_if(st.max_depth >= 4, "depth_4")
        .class_if(st.reads > 0, "reader")
        .class_if(st.reads_nonempty > 0, "reader_delivered_bytes")
        .class_if(st.raw > 0, "raw_advance")
        .class_if(st.endless > 0, "endless_iterator")
        .class_if(st.exit_view, "exit_view_on_error")
        .class_if(st.exit_all, "exit_all_on_error")
        .class_if(st.unused_view, "view_dropped_unused")
        .class_if(out.pending.is_some(), "exit_by_unwinding")
        .class_if(st.slices > 0, "initialized_checked")
        .class_if(out.written.len() >= 100, "over_100_bytes")
        .class_if(out.written.is_empty(), "nothing_written")
        .class_if(out.limit == 0, "root_capacity_0"))
}

// ---------------------------------------------------------------------------
// Generators

fn len_strategy() -> BoxedStrategy<Len> {
    prop_oneof![
        3 => Just(Len::Start(0)),
        2 => (0u16..8).prop_map(Len::Start),
        2 => (0u16..12).prop_map(Len::End),
        3 => any::<u8>().prop_map(Len::Frac),
        1 => (0u16..2100).prop_map(Len::Start),
    ]
    .boxed()
}

fn store_strategy() -> BoxedStrategy<Store> {
    prop_oneof![
        3 => (0u8..=64, len_strategy(), proptest::bool::weighted(0.25)).prop_map(|(cap, len, real)| Store::Vec { cap, len, real }),
        1 => (0u8..=12, len_strategy()).prop_map(|(cap, len)| Store::Vec { cap, len, real: false }),
        3 => (prop_oneof![1 => Just(0u8), 1 => Just(1u8), 3 => Just(2u8), 3 => Just(3u8), 2 => Just(4u8)], len_strategy())
            .prop_map(|(n, len)| Store::ArrayVec { n, len }),
        2 => prop_oneof![0u8..=64, 0u8..=10].prop_map(|cap| Store::Slice { cap }),
        2 => prop_oneof![0u8..=64, 0u8..=10].prop_map(|cap| Store::SliceRef { cap }),
    ]
    .boxed()
}

fn cap_strategy() -> BoxedStrategy<Cap> {
    prop_oneof![
        3 => (0u8..4).prop_map(Cap::Minus),
        2 => (0u8..3).prop_map(Cap::Plus),
        2 => (0u16..70).prop_map(Cap::Abs),
        1 => Just(Cap::Huge),
    ]
    .boxed()
}

fn caps_strategy() -> BoxedStrategy<Vec<Cap>> {
    prop_oneof![
        5 => Just(Vec::new()),
        4 => proptest::collection::vec(cap_strategy(), 1),
        1 => proptest::collection::vec(cap_strategy(), 2),
    ]
    .boxed()
}

fn bytes_strategy() -> BoxedStrategy<Vec<u8>> {
    prop_oneof![
        5 => proptest::collection::vec(any::<u8>(), 0..=12),
        1 => proptest::collection::vec(any::<u8>(), 0..=80),
    ]
    .boxed()
}

fn reader_strategy() -> BoxedStrategy<ReaderSpec> {
    prop_oneof![
        3 => bytes_strategy().prop_map(ReaderSpec::Slice),
        2 => (any::<u8>(), prop_oneof![0u16..40, 0u16..2200]).prop_map(|(byte, n)| ReaderSpec::RepeatTake { byte, n }),
        1 => Just(ReaderSpec::Empty),
        2 => (bytes_strategy(), any::<u8>(), 0u16..40).prop_map(|(first, byte, n)| ReaderSpec::Chain { first, byte, n }),
        2 => (bytes_strategy(), 0u8..20).prop_map(|(data, cap)| ReaderSpec::Buf { data, cap }),
    ]
    .boxed()
}

fn leaf_op_strategy() -> BoxedStrategy<Op> {
    prop_oneof![
        5 => bytes_strategy().prop_map(Op::Write),
        3 => (0u16..40, any::<u8>()).prop_map(|(n, start)| Op::Extend { n, start }),
        1 => (0u16..2200, any::<u8>()).prop_map(|(n, start)| Op::Extend { n, start }),
        2 => (0u8..4, any::<u8>()).prop_map(|(leave, start)| Op::Fill { leave, start }),
        2 => (0u8..3, any::<u8>()).prop_map(|(extra, start)| Op::Over { extra, start }),
        1 => any::<u8>().prop_map(|start| Op::ExtendEndless { start }),
        1 => (0u8..20, any::<u8>()).prop_map(|(n, start)| Op::ExtendPanic { n, start }),
        3 => (any::<u16>(), any::<u8>()).prop_map(|(k, start)| Op::Raw { k, start }),
        3 => (reader_strategy(), 1u8..=3, caps_strategy()).prop_map(|(reader, times, caps)| Op::Read { reader, times, caps }),
    ]
    .boxed()
}

fn view_strategy(depth: u32) -> BoxedStrategy<View> {
    let op = if depth == 0 {
        leaf_op_strategy()
    } else {
        prop_oneof![
            21 => leaf_op_strategy(),
            6 => (caps_strategy(), view_strategy(depth - 1)).prop_map(|(caps, view)| Op::Nested { caps, view: Box::new(view) }),
        ]
        .boxed()
    };
    (
        prop_oneof![
            1 => proptest::collection::vec(op.clone(), 0..2),
            7 => proptest::collection::vec(op, 1..8),
        ],
        prop_oneof![3 => Just(OnError::Continue), 1 => Just(OnError::ExitView), 1 => Just(OnError::ExitAll)],
        prop_oneof![
            3 => Just(End::Initialized),
            2 => Just(End::Drop),
            1 => reader_strategy().prop_map(End::ReadRef),
        ],
    )
        .prop_map(|(ops, on_error, end)| View { ops, on_error, end })
        .boxed()
}

fn case_strategy() -> impl Strategy<Value = Case> {
    (store_strategy(), caps_strategy(), view_strategy(4)).prop_map(|(store, caps, view)| Case { store, caps, view })
}

// ---------------------------------------------------------------------------
// Complete enumeration of a small sub-space: every capacity and pre-existing length

fn sweep_stores() -> Vec<Store> {
    let mut v = Vec::new();
    for cap in 0u8..=64 {
        for len in 0..=cap as u16 {
            v.push(Store::Vec { cap, len: Len::Start(len), real: false });
        }
    }
    for n in 0u8..4 {
        for len in 0..=AV_SIZES[n as usize] as u16 {
            v.push(Store::ArrayVec { n, len: Len::Start(len) });
        }
    }
    for cap in 0u8..=64 {
        v.push(Store::Slice { cap });
        v.push(Store::SliceRef { cap });
    }
    v
}

fn sweep_op(k: u64) -> Op {
    match k {
        0 => Op::Write(Vec::new()),
        1 => Op::Write(vec![0x11]),
        2 => Op::Fill { leave: 1, start: 0x20 },
        3 => Op::Fill { leave: 0, start: 0x40 },
        _ => Op::Over { extra: 0, start: 0x60 },
    }
}

fn sweep_caps(k: u64) -> Vec<Cap> {
    match k {
        0 => Vec::new(),
        1 => vec![Cap::Minus(1)],
        2 => vec![Cap::Minus(0)],
        _ => vec![Cap::Plus(0)],
    }
}

fn sweep_case(stores: &[Store], ncap: u64, four_ops: bool, mut idx: u64) -> Case {
    let mut take = |n: u64| {
        let r = idx % n;
        idx /= n;
        r
    };
    let d = if four_ops { Some(take(5)) } else { None };
    let (c, b, a) = (take(5), take(5), take(5));
    let (nested_caps, root_caps) = (take(ncap), take(ncap));
    let store = stores[take(stores.len() as u64) as usize].clone();
    let mut ops = vec![
                sweep_op(a),
                Op::Nested {
                    caps: sweep_caps(nested_caps),
                    view: Box::new(View {
                        ops: vec![sweep_op(b)],
                        on_error: OnError::Continue,
                        end: End::Initialized,
                    }),
                },
                sweep_op(c),
    ];
    ops.extend(d.map(sweep_op));
    Case {
        store,
        caps: sweep_caps(root_caps),
        view: View {
            ops,
            on_error: OnError::Continue,
            end: End::Initialized,
        },
    }
}

// ---------------------------------------------------------------------------
// Ordered smoke cases. A miscount in one of the Drop impls (`set_len` past the capacity) is undefined
// behaviour that std answers with a non-unwinding panic (process abort) once the store is full. So the
// check first runs histories that never fill the store (a miscount shows as a wrong length), then
// capacity errors on `&mut [u8]` only (no write-back in Drop), and stops at the first violation.

fn roomy_stores() -> Vec<Store> {
    vec![
        Store::Slice { cap: 16 },
        Store::SliceRef { cap: 16 },
        Store::Vec { cap: 16, len: Len::Start(3), real: false },
        Store::Vec { cap: 16, len: Len::Start(3), real: true },
        Store::ArrayVec { n: 3, len: Len::Start(3) },
        Store::ArrayVec { n: 4, len: Len::Start(5) },
    ]
}

fn roomy_view(k: u64) -> View {
    let view = |ops, end| View { ops, on_error: OnError::Continue, end };
    match k {
        0 => view(vec![], End::Drop),
        1 => view(vec![Op::Write(vec![1, 2, 3])], End::Initialized),
        2 => view(
            vec![
                Op::Write(vec![4, 5]),
                Op::Nested {
                    caps: vec![],
                    view: Box::new(view(vec![Op::Write(vec![6, 7]), Op::Raw { k: 0x3000, start: 0x30 }], End::Initialized)),
                },
                Op::Extend { n: 2, start: 0x70 },
            ],
            End::Initialized,
        ),
        3 => view(
            vec![
                Op::Nested {
                    caps: vec![Cap::Minus(4)],
                    view: Box::new(view(
                        vec![Op::Read { reader: ReaderSpec::Slice(vec![8, 9, 10]), times: 1, caps: vec![] }],
                        End::Drop,
                    )),
                },
                Op::Write(vec![11]),
            ],
            End::ReadRef(ReaderSpec::RepeatTake { byte: 12, n: 2 }),
        ),
        _ => view(
            vec![Op::Nested {
                caps: vec![],
                view: Box::new(view(vec![Op::Write(vec![13]), Op::ExtendPanic { n: 2, start: 0x80 }], End::Initialized)),
            }],
            End::Initialized,
        ),
    }
}

fn roomy_case(mut idx: u64) -> Case {
    let stores = roomy_stores();
    let mut take = |n: u64| {
        let r = idx % n;
        idx /= n;
        r
    };
    let view = roomy_view(take(5));
    let caps = match take(3) {
        0 => vec![],
        1 => vec![Cap::Minus(2)],
        _ => vec![Cap::Minus(1), Cap::Minus(1)],
    };
    let store = stores[take(stores.len() as u64) as usize].clone();
    Case { store, caps, view }
}

/// `advance` past the end of a view must not be counted: it either panics (the assert) or leaves
/// the view in a state whose accessors still work and stay inside the capacity.
fn check_advance_past_end(cap: usize, pre: usize, excess: usize) -> Result<bool, String> {
    let mut can = Canary::new(cap);
    can.window().fill(PATTERN);
    let data = gen_bytes(0x10, pre);
    let r: Result<(), String> = with_buffer(can.window(), |mut b| {
        b.write(&data).map_err(|_| "write within the capacity refused".to_string())?;
        let rem = b.remaining();
        match guard(|| unsafe { b.advance(rem + excess) }) {
            Err(p) if p.fuel => Err(p.to_string()),
            Err(_) => Ok(()),
            Ok(()) => {
                // accepted: everything must still work and stay inside the capacity
                let what = format!("advance({}) on a view with {} of {} bytes left was accepted", rem + excess, rem, cap);
                let after = guard(|| (b.remaining(), b.initialized().len())).map_err(|p| format!("{}; afterwards: {}", what, p))?;
                ensure!(
                    after.0 <= rem && after.1 <= cap && after.0 + after.1 == cap,
                    "{}; afterwards remaining() = {}, initialized().len() = {}",
                    what,
                    after.0,
                    after.1
                );
                Ok(())
            }
        }
    });
    ensure!(can.intact(), "advance past the end: memory outside the slice was modified");
    r.map(|()| true)
}

// ---------------------------------------------------------------------------

/// Creates the intermediate step of a view (`Buffer::to_to_buffer_ref`) on a Vec / ArrayVec / slice
/// reference with `pre` pre-existing bytes and releases it without use.
fn check_intermediate_dropped(cap: usize, pre: usize, variant: u8) -> Result<bool, String> {
    if pre > cap {
        return Ok(false);
    }
    let content: Vec<u8> = (0..pre).map(pre_byte).collect();
    let cap_arg = match variant {
        1 => Some((cap - pre) / 2),
        2 => Some(cap - pre),
        _ => None,
    };
    // Vec
    {
        let mut v: Vec<u8> = Vec::with_capacity(cap);
        v.extend_from_slice(&content);
        let ptr = v.as_ptr();
        let r = guard(|| match (variant, cap_arg) {
            (3, _) => {
                let mut inter = (&mut v).to_to_buffer_ref();
                let b = inter.to_buffer_ref();
                drop(b);
                drop(inter);
            }
            (_, Some(c)) => drop((&mut v).cap_at(c).to_to_buffer_ref()),
            _ => drop((&mut v).to_to_buffer_ref()),
        });
        r.map_err(|p| format!("Vec (capacity {}, length {}): releasing an unused view: {}", cap, pre, p))?;
        ensure!(v.len() == pre, "Vec (capacity {}, length {}): releasing an unused view changed the length to {}", cap, pre, v.len());
        ensure!(v[..] == content[..], "Vec (capacity {}, length {}): releasing an unused view changed the contents", cap, pre);
        ensure!(v.as_ptr() == ptr && v.capacity() >= cap, "Vec: releasing an unused view reallocated the Vec");
    }
    // ArrayVec<64>
    {
        let mut a: ArrayVec<[u8; 64]> = ArrayVec::new();
        for &b in &content {
            a.push(b);
        }
        let r = guard(|| match (variant, cap_arg) {
            (3, _) => {
                let mut inter = (&mut a).to_to_buffer_ref();
                let b = inter.to_buffer_ref();
                drop(b);
                drop(inter);
            }
            (_, Some(c)) => drop((&mut a).cap_at(c.min(64 - pre)).to_to_buffer_ref()),
            _ => drop((&mut a).to_to_buffer_ref()),
        });
        r.map_err(|p| format!("ArrayVec<64> (length {}): releasing an unused view: {}", pre, p))?;
        ensure!(a.len() == pre, "ArrayVec<64> (length {}): releasing an unused view changed the length to {}", pre, a.len());
        ensure!(a[..] == content[..], "ArrayVec<64> (length {}): releasing an unused view changed the contents", pre);
    }
    // slice reference: narrowed to the (empty) written prefix, memory untouched
    {
        let mut mem: Vec<u8> = (0..cap).map(pre_byte).collect();
        let copy = mem.clone();
        {
            let mut s: &mut [u8] = &mut mem[..];
            let sr = &mut s;
            let r = guard(|| match cap_arg {
                Some(c) => drop(sr.cap_at(c.min(cap)).to_to_buffer_ref()),
                None => drop(sr.to_to_buffer_ref()),
            });
            r.map_err(|p| format!("slice reference (length {}): releasing an unused view: {}", cap, p))?;
        }
        ensure!(mem == copy, "slice reference: releasing an unused view changed the memory");
    }
    Ok(pre > 0)
}

pub fn run(ctx: &Ctx) {
    ctx.set_rule(
        "histories: proptest-generated trees of views (root on Vec / ArrayVec<0|1|8|32|2048> / &mut [u8] / &mut &mut [u8] with every \
         capacity 0..=64 and pre-existing length, nested views up to depth 4, 0-2 cap_at below/at/above the remaining capacity on \
         any of them) with write, extend (finite, endless, panicking iterator), uninitialized_mut+advance, reader fills \
         (&[u8], Take<Repeat>, Empty, Chain, BufReader) and early exits (return after a capacity error, unused drop, unwinding), \
         checked against a linear byte-string model after every step and after release, memory pre-filled with a pattern inside \
         canaries (non-trivial = at least one capacity error AND a nested or capped view; distinct by case hash); \
         small_exhaustive: every store with every capacity 0..=64 x every pre-existing length x root cap x nested cap x 5^3 \
         write lengths around the remaining capacity (5^4 in the thorough tier; non-trivial = a capacity error occurred); \
         smoke_roomy / smoke_slice: ordered canonical cases of the same kind run first; advance_past_end: every capacity 0..=64 x bytes \
         written x excess 1..=3 (each one counts as non-trivial)",
    );
    ctx.assume("std readers (&[u8], Take<Repeat>, Empty, Chain, BufReader) deliver their bytes in order, never fail and store only the bytes they report");
    ctx.assume("memory safety is observed through pattern/canary bytes only; the AddressSanitizer replay is a separate build");
    ctx.assume("a Vec header laid over a canary window (never reallocated or dropped) behaves like a heap Vec for len/capacity/as_mut_ptr/set_len; real heap Vecs are generated as well");

    let allow_above = !ctx.known_open(KEY_CAP_ABOVE);
    let excluded = AtomicU64::new(0);

    // cap_at with an argument above the capacity that is left: "no more than `len` bytes will be
    // written" (a generic caller cannot even know the capacity of a `T: Buffer`)
    ctx.probe(KEY_CAP_ABOVE, || {
        let case = Case {
            store: Store::Slice { cap: 1 },
            caps: vec![Cap::Plus(0)],
            view: View {
                ops: vec![Op::Write(vec![7])],
                on_error: OnError::Continue,
                end: End::Initialized,
            },
        };
        check_case(&case, true, &AtomicU64::new(0)).map(|_| ())
    });

    let ncap: u64 = if allow_above { 4 } else { 3 };
    let dummy = AtomicU64::new(0);

    let before = ctx.violations();
    ctx.sweep(
        "smoke_roomy",
        6 * 3 * 5,
        false,
        |i| check_case(&roomy_case(i), allow_above, &dummy).map(|o| o.nontrivial),
        |i| serde_json::to_value(roomy_case(i)).unwrap_or(json!(null)),
    );
    if ctx.violations() > before {
        ctx.note("a history that never fills its store already fails; the remaining sections were skipped (a wrong length write-back is undefined behaviour once the store is full)".to_string());
        return;
    }
    let slice_stores: Vec<Store> = (0u8..=16).map(|cap| Store::Slice { cap }).collect();
    ctx.exhaustive(
        "smoke_slice",
        slice_stores.len() as u64 * 3 * 3 * 125,
        |i| check_case(&sweep_case(&slice_stores, 3, false, i), allow_above, &dummy).map(|o| o.nontrivial),
        |i| serde_json::to_value(sweep_case(&slice_stores, 3, false, i)).unwrap_or(json!(null)),
    );
    if ctx.violations() > before {
        ctx.note("capacity errors on a plain slice already fail; the remaining sections were skipped".to_string());
        return;
    }
    let pairs: Vec<(usize, usize)> = (0..=64usize).flat_map(|cap| (0..=cap).map(move |pre| (cap, pre))).collect();
    ctx.exhaustive(
        "advance_past_end",
        pairs.len() as u64 * 3,
        |i| {
            let (cap, pre) = pairs[(i / 3) as usize];
            check_advance_past_end(cap, pre, (i % 3) as usize + 1)
        },
        |i| json!({"capacity": pairs[(i / 3) as usize].0, "written": pairs[(i / 3) as usize].1, "excess": i % 3 + 1}),
    );

    // A view that is released before it was ever turned into a BufferRef ("view dropped without use",
    // at the earliest possible point): the container must be exactly as before.
    ctx.exhaustive(
        "intermediate_dropped",
        65 * 65 * 4,
        |i| check_intermediate_dropped((i / (65 * 4)) as usize, ((i / 4) % 65) as usize, (i % 4) as u8),
        |i| {
            let variant = ["plain", "cap_at below", "cap_at at", "converted then unused"][(i % 4) as usize];
            json!({"capacity": i / (65 * 4), "pre_existing": (i / 4) % 65, "variant": variant})
        },
    );

    // (the index -> case mapping of small_exhaustive depends on whether the cap_at finding is listed:
    // replay an index only under the known_findings.json it was found with; `histories` replays are
    // self-contained)
    let stores = sweep_stores();
    let four_ops = !ctx.quick();
    let per_store_caps: u64 = if four_ops { 625 } else { 125 };
    let total = stores.len() as u64 * ncap * ncap * per_store_caps;
    ctx.exhaustive(
        "small_exhaustive",
        total,
        |i| {
            let case = sweep_case(&stores, ncap, four_ops, i);
            check_case(&case, allow_above, &dummy).map(|o| o.nontrivial)
        },
        |i| serde_json::to_value(sweep_case(&stores, ncap, four_ops, i)).unwrap_or(json!(null)),
    );
    if !allow_above {
        // the Plus(0) choices left out of the enumeration
        ctx.add_excluded_known(stores.len() as u64 * (16 - 9) * per_store_caps);
    }

    ctx.prop("histories", ctx.n(300_000, 20_000_000), case_strategy, |c: &Case| check_case(c, allow_above, &excluded));
    ctx.add_excluded_known(excluded.load(Ordering::Relaxed));
}
