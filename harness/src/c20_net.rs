//! C20 - the multi-peer endpoint keeps peers isolated.
//!
//! Generator: histories over one `Net<u8>` (accepting or not) and up to 4 remote addresses. Remote
//! datagrams come from per-address remote connections (realistic handshakes, data, acks, closes),
//! or are garbage, or belong to another address.
//! Oracle: differential against independent single connections: for every address a reference
//! `Connection` is fed exactly the projected sub-history; events, outgoing datagrams (and their
//! destination address) and deadlines must agree. Plus a model of the peer table.

use crate::netsim::{SimCb, CALL_FUEL};
use crate::util::{hex, Warnings};
use crate::{burn, guard, pick, set_fuel, unlimited_fuel, Ctx, Outcome, PResult};
use libtw2_net::connection as c6;
use libtw2_net::net::{Callback, Chunk, ChunkOrEvent, Net, PeerId};
use libtw2_net::{Timeout, Timestamp};
use proptest::prelude::*;
use serde::{Deserialize, Serialize};
use std::collections::BTreeMap;

pub const KEY_REJECT: &str = "reject-always-panics";
const NADDR: usize = 4;
const CONNECT_PACKET: &[u8; 12] = b"\x10\x00\x00\x01TKEN\xff\xff\xff\xff";
const CONNECT_PACKET_NO_TOKEN: &[u8; 4] = b"\x10\x00\x00\x01";

struct NetCb {
    now_us: u64,
    out: Vec<(u8, Vec<u8>)>,
    streams: Vec<SimCb>,
    current: usize,
    /// injected fault: the application's send callback reports an error (nothing goes out)
    fail_sends: bool,
    failed: u32,
}

/// Callback of the reference connections: a SimCb whose sends can be made to fail like the Net's.
struct RefCb {
    inner: SimCb,
    fail_sends: bool,
}

impl c6::Callback for RefCb {
    type Error = ();
    fn secure_random(&mut self, buffer: &mut [u8]) {
        c6::Callback::secure_random(&mut self.inner, buffer)
    }
    fn send(&mut self, buffer: &[u8]) -> Result<(), ()> {
        if self.fail_sends {
            burn();
            return Err(());
        }
        c6::Callback::send(&mut self.inner, buffer)
    }
    fn time(&mut self) -> Timestamp {
        c6::Callback::time(&mut self.inner)
    }
}

impl Callback<u8> for NetCb {
    type Error = ();
    fn secure_random(&mut self, buffer: &mut [u8]) {
        let cur = self.current;
        c6::Callback::secure_random(&mut self.streams[cur], buffer)
    }
    fn send(&mut self, addr: u8, data: &[u8]) -> Result<(), ()> {
        burn();
        if self.fail_sends {
            self.failed += 1;
            return Err(());
        }
        self.out.push((addr, data.to_vec()));
        Ok(())
    }
    fn time(&mut self) -> Timestamp {
        burn();
        Timestamp::from_usecs_since_epoch(self.now_us)
    }
}

#[derive(Clone, Debug, PartialEq, Eq, Hash, Serialize, Deserialize)]
pub enum Op {
    // remote side
    RemoteConnect { a: u8, vanilla: bool },
    RemoteSend { a: u8, vital: bool, len: u16 },
    RemoteFlush { a: u8 },
    RemoteTick { a: u8 },
    RemoteDisconnect { a: u8 },
    DeliverToNet { a: u8, k: u16 },
    DropToNet { a: u8, k: u16 },
    /// rewrite a datagram on its way to the Net into its other wire representation (payload compressed / not)
    RecodeToNet { a: u8, k: u16 },
    DeliverToRemote { a: u8, k: u16 },
    /// a datagram in flight from `from` arrives with source address `a`
    CrossFeed { a: u8, from: u8, k: u16 },
    Garbage { a: u8, data: Vec<u8> },
    // local application
    NetConnect { a: u8 },
    Accept { p: u16 },
    Reject { p: u16, reason_len: u8 },
    Ignore { p: u16 },
    NetSend { p: u16, vital: bool, len: u16 },
    NetFlush { p: u16 },
    NetDisconnect { p: u16, reason_len: u8 },
    NetSendConnless { a: u8, len: u16 },
    NetTick,
    Advance { dt: u8 },
    /// fault injection: from now on (until switched off) the application's send callback fails
    FailSends { on: bool },
}

#[derive(Clone, Debug, Hash, Serialize, Deserialize)]
pub struct Case {
    pub server: bool,
    pub ops: Vec<Op>,
}

const DT_US: [u64; 7] = [0, 1_000, 499_000, 500_000, 1_000_000, 1_001_000, 5_000_000];

#[derive(Clone, Debug, PartialEq)]
enum NEv {
    Chunk(u32, bool, Vec<u8>),
    Connless(u8, Option<u32>, Vec<u8>),
    Connect(u32),
    Ready(u32),
    Disconnect(u32, Vec<u8>),
}

struct Local {
    pid: PeerId,
    conn: c6::Connection,
    cb: RefCb,
    pending: bool,
    token: bool,
}

struct World {
    net: Net<u8>,
    cb: NetCb,
    now_us: u64,
    server: bool,
    /// reference single connections, one per live peer (keyed by address)
    locals: BTreeMap<u8, Local>,
    /// remote endpoints (real connections playing the other side)
    remotes: Vec<Option<(c6::Connection, SimCb, bool)>>,
    to_net: Vec<Vec<Vec<u8>>>,
    to_remote: Vec<Vec<Vec<u8>>>,
    serial: u32,
    stats: Stats,
    reject_open: bool,
}

#[derive(Default)]
struct Stats {
    online_addrs: std::collections::BTreeSet<u8>,
    interleaved: bool,
    last_data_addr: Option<u8>,
    closes_remote: u32,
    closes_local: u32,
    garbage_unknown: u32,
    pid_after_removal: u32,
    removed_addrs: std::collections::BTreeSet<u8>,
    rejects: u32,
    ignores: u32,
    crossfeeds: u32,
    applied: u32,
    skipped: u32,
    skipped_pending_feed: u32,
    recoded: u32,
}

fn payload(serial: u32, len: usize) -> Vec<u8> {
    let tag = serial.to_be_bytes();
    (0..len).map(|i| if i < 4 { tag[i] } else { (i as u8) ^ tag[3] }).collect()
}

impl World {
    fn new(server: bool, reject_open: bool) -> World {
        World {
            net: if server { Net::server() } else { Net::client() },
            cb: NetCb { now_us: 1_000_000, out: Vec::new(), streams: (0..NADDR).map(|a| SimCb::new(0x2000 + a as u64)).collect(), current: 0, fail_sends: false, failed: 0 },
            now_us: 1_000_000,
            server,
            locals: BTreeMap::new(),
            remotes: (0..NADDR).map(|_| None).collect(),
            to_net: vec![Vec::new(); NADDR],
            to_remote: vec![Vec::new(); NADDR],
            serial: 0,
            stats: Stats::default(),
            reject_open,
        }
    }

    fn live_pids(&self) -> Vec<(u8, PeerId)> {
        let mut v: Vec<(u8, PeerId)> = self.locals.iter().map(|(a, l)| (*a, l.pid)).collect();
        v.sort_by_key(|x| x.1);
        v
    }

    fn pick_peer(&self, p: u16) -> Option<u8> {
        let v = self.live_pids();
        if v.is_empty() {
            None
        } else {
            Some(v[pick(p, v.len())].0)
        }
    }

    /// Run a closure on the Net under fuel/panic capture.
    fn net_call<R>(&mut self, addr: usize, what: &str, f: impl FnOnce(&mut Net<u8>, &mut NetCb) -> R) -> Result<R, String> {
        self.cb.now_us = self.now_us;
        self.cb.current = addr % NADDR;
        set_fuel(CALL_FUEL);
        let (net, cb) = (&mut self.net, &mut self.cb);
        let r = guard(|| f(net, cb));
        unlimited_fuel();
        r.map_err(|p| format!("Net::{}: {}", what, p))
    }

    /// Run a closure on the reference connection of `a`.
    fn local_call<R>(&mut self, a: u8, what: &str, f: impl FnOnce(&mut c6::Connection, &mut RefCb) -> R) -> Result<R, String> {
        let now = self.now_us;
        let fail = self.cb.fail_sends;
        let l = self.locals.get_mut(&a).expect("reference connection exists");
        l.cb.inner.now_us = now;
        l.cb.fail_sends = fail;
        set_fuel(CALL_FUEL);
        let (conn, cb) = (&mut l.conn, &mut l.cb);
        let r = guard(|| f(conn, cb));
        unlimited_fuel();
        r.map_err(|p| format!("reference Connection::{}: {}", what, p))
    }

    /// After an op concerning address `a` (or all addresses for tick): Net's sends must equal the references'.
    fn compare_sends(&mut self, what: &str) -> Result<(), String> {
        let out = std::mem::take(&mut self.cb.out);
        let mut by_addr: BTreeMap<u8, Vec<Vec<u8>>> = BTreeMap::new();
        for (a, d) in out {
            by_addr.entry(a).or_default().push(d);
        }
        let mut addrs: Vec<u8> = self.locals.keys().cloned().collect();
        for a in by_addr.keys() {
            if !addrs.contains(a) {
                addrs.push(*a);
            }
        }
        for a in addrs {
            let got = by_addr.remove(&a).unwrap_or_default();
            let want = self.locals.get_mut(&a).map(|l| std::mem::take(&mut l.cb.inner.out)).unwrap_or_default();
            if got != want {
                return Err(format!(
                    "{}: datagrams sent to address {} differ from an independent connection fed only that address's traffic:\n net: {:?}\n ref: {:?}",
                    what,
                    a,
                    got.iter().map(|d| hex(&d[..d.len().min(24)])).collect::<Vec<_>>(),
                    want.iter().map(|d| hex(&d[..d.len().min(24)])).collect::<Vec<_>>()
                ));
            }
            if (a as usize) < NADDR {
                self.to_remote[a as usize].extend(got);
            }
        }
        Ok(())
    }

    fn check_deadline(&self) -> Result<(), String> {
        let want: Timeout = self.locals.values().map(|l| l.conn.needs_tick()).min().unwrap_or_default();
        let got = self.net.needs_tick();
        if got != want {
            return Err(format!("Net::needs_tick() = {:?} but the minimum over its {} live peers is {:?}", got, self.locals.len(), want));
        }
        Ok(())
    }

    fn check_pids(&self) -> Result<(), String> {
        let v = self.live_pids();
        for w in v.windows(2) {
            if w[0].1 == w[1].1 {
                return Err(format!("two live peers (addresses {} and {}) share peer id {:?}", w[0].0, w[1].0, w[0].1));
            }
        }
        Ok(())
    }

    fn remove_local(&mut self, a: u8) {
        self.locals.remove(&a);
        self.stats.removed_addrs.insert(a);
    }

    /// Feed a datagram with source address `a` to the Net and to the projected reference.
    fn feed(&mut self, a: u8, data: &[u8], what: &str) -> Result<(), String> {
        let known = self.locals.contains_key(&a);
        if known && self.locals[&a].pending {
            // The in-repo callers (event-loop, server) decide accept/reject while handling the
            // Connect event, i.e. before any further datagram of that address is fed; accept()
            // asserts that. Datagrams arriving in between are treated as delayed (dropped here).
            self.stats.skipped_pending_feed += 1;
            return Ok(());
        }
        let mut buf = [0u8; 2048];
        let data_v = data.to_vec();
        let mut warn = Warnings::new();
        let evs: Vec<NEv> = {
            self.cb.now_us = self.now_us;
            self.cb.current = a as usize % NADDR;
            set_fuel(CALL_FUEL);
            let (net, cb) = (&mut self.net, &mut self.cb);
            let r = guard(|| {
                let (iter, res) = net.feed(cb, &mut warn, a, &data_v, &mut buf[..]);
                let _ = res;
                let mut v = Vec::new();
                for e in iter {
                    burn();
                    v.push(match e {
                        ChunkOrEvent::Chunk(Chunk { pid, vital, data }) => NEv::Chunk(pid.0, vital, data.to_vec()),
                        ChunkOrEvent::Connless(c) => NEv::Connless(c.addr, c.pid.map(|p| p.0), c.data.to_vec()),
                        ChunkOrEvent::Connect(p) => NEv::Connect(p.0),
                        ChunkOrEvent::Ready(p) => NEv::Ready(p.0),
                        ChunkOrEvent::Disconnect(p, r) => NEv::Disconnect(p.0, r.to_vec()),
                    });
                }
                v
            });
            unlimited_fuel();
            r.map_err(|p| format!("Net::feed ({}): {}", what, p))?
        };
        if known {
            let pid = self.locals[&a].pid.0;
            let ref_evs = self.local_call(a, "feed", |c, cb| {
                let mut b = [0u8; 2048];
                let mut w = Warnings::new();
                let (iter, res) = c.feed(cb, &mut w, &data_v, &mut b[..]);
                let _ = res;
                iter.map(|e| {
                    burn();
                    match e {
                        c6::ReceiveChunk::Connless(d) => NEv::Connless(a, Some(pid), d.to_vec()),
                        c6::ReceiveChunk::Connected(d, v) => NEv::Chunk(pid, v, d.to_vec()),
                        c6::ReceiveChunk::Ready => NEv::Ready(pid),
                        c6::ReceiveChunk::Disconnect(r) => NEv::Disconnect(pid, r.to_vec()),
                    }
                })
                .collect::<Vec<_>>()
            })?;
            if evs != ref_evs {
                return Err(format!("{}: events for address {} (pid {}) differ from the independent connection: net {:?} vs ref {:?}", what, a, pid, evs, ref_evs));
            }
            if evs.iter().any(|e| matches!(e, NEv::Chunk(..))) {
                if let Some(prev) = self.stats.last_data_addr {
                    if prev != a {
                        self.stats.interleaved = true;
                    }
                }
                self.stats.last_data_addr = Some(a);
            }
            if self.locals[&a].conn.verif_summary().0 == "Online" {
                self.stats.online_addrs.insert(a);
            }
            self.compare_sends(what)?;
            if evs.iter().any(|e| matches!(e, NEv::Disconnect(..))) {
                self.stats.closes_remote += 1;
                self.remove_local(a);
            }
        } else {
            // unknown address: a pending peer iff it is a connect request on an accepting endpoint
            let is_connect = data == &CONNECT_PACKET[..] || is_connect_packet(data);
            let expect_peer = self.server && is_connect;
            let connects: Vec<u32> = evs.iter().filter_map(|e| if let NEv::Connect(p) = e { Some(*p) } else { None }).collect();
            if expect_peer {
                if connects.len() != 1 || evs.len() != 1 {
                    return Err(format!("{}: connect request from unknown address {} on an accepting endpoint yields {:?} instead of one Connect event", what, a, evs));
                }
                let pid = PeerId(connects[0]);
                if self.locals.values().any(|l| l.pid == pid) {
                    return Err(format!("new pending peer for address {} got peer id {:?} which a live peer already has", a, pid));
                }
                if self.stats.removed_addrs.contains(&a) {
                    self.stats.pid_after_removal += 1;
                }
                let token = has_token_marker(data);
                self.locals.insert(a, Local { pid, conn: c6::Connection::new(), cb: RefCb { inner: SimCb::new(0x2000 + (a as u64 % NADDR as u64)), fail_sends: false }, pending: true, token });
                // keep the per-address random stream in step with the Net's
                let st = self.cb.streams[a as usize % NADDR].clone();
                self.locals.get_mut(&a).unwrap().cb.inner.rnd_state = st.rnd_state;
                self.locals.get_mut(&a).unwrap().cb.inner.script = st.script;
            } else {
                if !connects.is_empty() {
                    return Err(format!("{}: datagram [{}] from unknown address {} created a peer (accepting endpoint: {})", what, hex(&data[..data.len().min(24)]), a, self.server));
                }
                for e in &evs {
                    match e {
                        NEv::Connless(addr, None, _) if *addr == a => {}
                        other => return Err(format!("{}: datagram from unknown address {} produced event {:?}", what, a, other)),
                    }
                }
                self.stats.garbage_unknown += 1;
            }
            self.compare_sends(what)?;
        }
        Ok(())
    }

    fn remote_call(&mut self, a: usize, f: impl FnOnce(&mut c6::Connection, &mut SimCb)) {
        let now = self.now_us;
        if let Some((conn, cb, vanilla)) = self.remotes[a].as_mut() {
            cb.now_us = now;
            set_fuel(CALL_FUEL);
            let _ = guard(|| f(conn, cb));
            unlimited_fuel();
            let vanilla = *vanilla;
            for mut d in std::mem::take(&mut cb.out) {
                if vanilla && d == CONNECT_PACKET {
                    d = CONNECT_PACKET_NO_TOKEN.to_vec();
                }
                self.to_net[a].push(d);
            }
        }
    }

    fn step(&mut self, op: &Op) -> Result<bool, String> {
        let applied = match op {
            Op::RemoteConnect { a, vanilla } => {
                let a = *a as usize % NADDR;
                if self.remotes[a].is_some() && self.remotes[a].as_ref().unwrap().0.verif_summary().0 != "Disconnected" {
                    false
                } else {
                    self.remotes[a] = Some((c6::Connection::new(), SimCb::new(0x7000 + a as u64), *vanilla));
                    self.to_net[a].clear();
                    self.remote_call(a, |c, cb| {
                        let _ = c.connect(cb);
                    });
                    true
                }
            }
            Op::RemoteSend { a, vital, len } => {
                let a = *a as usize % NADDR;
                let online = self.remotes[a].as_ref().map(|r| r.0.verif_summary().0 == "Online").unwrap_or(false);
                if !online {
                    false
                } else {
                    self.serial += 1;
                    let p = payload(self.serial, (*len as usize).min(900));
                    let vital = *vital;
                    self.remote_call(a, |c, cb| {
                        let _ = c.send(cb, &p, vital);
                    });
                    true
                }
            }
            Op::RemoteFlush { a } => {
                let a = *a as usize % NADDR;
                let online = self.remotes[a].as_ref().map(|r| r.0.verif_summary().0 == "Online").unwrap_or(false);
                if online {
                    self.remote_call(a, |c, cb| {
                        let _ = c.flush(cb);
                    });
                }
                online
            }
            Op::RemoteTick { a } => {
                let a = *a as usize % NADDR;
                let some = self.remotes[a].is_some();
                self.remote_call(a, |c, cb| {
                    let _ = c.tick(cb);
                });
                some
            }
            Op::RemoteDisconnect { a } => {
                let a = *a as usize % NADDR;
                let st = self.remotes[a].as_ref().map(|r| r.0.verif_summary().0);
                if matches!(st, Some("Online") | Some("Connecting") | Some("Pending")) {
                    self.remote_call(a, |c, cb| {
                        let _ = c.disconnect(cb, b"bye");
                    });
                    true
                } else {
                    false
                }
            }
            Op::DeliverToNet { a, k } => {
                let a = *a as usize % NADDR;
                if self.to_net[a].is_empty() {
                    false
                } else {
                    let k = pick(*k, self.to_net[a].len());
                    let d = self.to_net[a].remove(k);
                    self.feed(a as u8, &d, "deliver")?;
                    true
                }
            }
            Op::DropToNet { a, k } => {
                let a = *a as usize % NADDR;
                if self.to_net[a].is_empty() {
                    false
                } else {
                    let k = pick(*k, self.to_net[a].len());
                    self.to_net[a].remove(k);
                    true
                }
            }
            Op::RecodeToNet { a, k } => {
                let a = *a as usize % NADDR;
                if self.to_net[a].is_empty() {
                    false
                } else {
                    let k = pick(*k, self.to_net[a].len());
                    match crate::c06_reader_total::recode(&self.to_net[a][k], false) {
                        Some(alt) => {
                            self.to_net[a][k] = alt;
                            self.stats.recoded += 1;
                            true
                        }
                        None => false,
                    }
                }
            }
            Op::DeliverToRemote { a, k } => {
                let a = *a as usize % NADDR;
                if self.to_remote[a].is_empty() || self.remotes[a].is_none() {
                    false
                } else {
                    let k = pick(*k, self.to_remote[a].len());
                    let d = self.to_remote[a].remove(k);
                    self.remote_call(a, |c, cb| {
                        let mut b = [0u8; 2048];
                        let mut w = Warnings::new();
                        let (iter, _) = c.feed(cb, &mut w, &d, &mut b[..]);
                        for _ in iter {
                            burn();
                        }
                    });
                    true
                }
            }
            Op::CrossFeed { a, from, k } => {
                let a = *a as usize % NADDR;
                let from = *from as usize % NADDR;
                if a == from || self.to_net[from].is_empty() {
                    false
                } else {
                    let k = pick(*k, self.to_net[from].len());
                    let d = self.to_net[from][k].clone();
                    self.stats.crossfeeds += 1;
                    self.feed(a as u8, &d, "cross-feed")?;
                    true
                }
            }
            Op::Garbage { a, data } => {
                let a = *a as usize % NADDR;
                self.feed(a as u8, data, "garbage")?;
                true
            }
            Op::NetConnect { a } => {
                let a = *a % NADDR as u8;
                if self.locals.contains_key(&a) {
                    false
                } else {
                    let pid = self.net_call(a as usize, "connect", |n, cb| {
                        let (pid, r) = n.connect(cb, a);
                        let _ = r;
                        pid
                    })?;
                    if self.locals.values().any(|l| l.pid == pid) {
                        return Err(format!("Net::connect returned peer id {:?} which a live peer already has", pid));
                    }
                    if self.stats.removed_addrs.contains(&a) {
                        self.stats.pid_after_removal += 1;
                    }
                    let mut cb = SimCb::new(0);
                    cb.rnd_state = self.cb.streams[a as usize].rnd_state;
                    self.locals.insert(a, Local { pid, conn: c6::Connection::new(), cb: RefCb { inner: cb, fail_sends: false }, pending: false, token: false });
                    self.local_call(a, "connect", |c, cb| {
                        let _ = c.connect(cb);
                    })?;
                    self.compare_sends("connect")?;
                    true
                }
            }
            Op::Accept { p } => match self.pick_peer(*p) {
                Some(a) if self.locals[&a].pending => {
                    let pid = self.locals[&a].pid;
                    self.net_call(a as usize, "accept", |n, cb| {
                        let _ = n.accept(cb, pid);
                    })?;
                    let token = self.locals[&a].token;
                    self.local_call(a, "feed(connect)", |c, cb| {
                        let mut b = [0u8; 2048];
                        let pkt: &[u8] = if token { CONNECT_PACKET } else { CONNECT_PACKET_NO_TOKEN };
                        let (iter, _) = c.feed(cb, &mut Warnings::new(), pkt, &mut b[..]);
                        for _ in iter {}
                    })?;
                    self.locals.get_mut(&a).unwrap().pending = false;
                    self.compare_sends("accept")?;
                    true
                }
                _ => false,
            },
            Op::Reject { p, reason_len } => match self.pick_peer(*p) {
                Some(a) if self.locals[&a].pending => {
                    if self.reject_open {
                        return Ok(false);
                    }
                    let pid = self.locals[&a].pid;
                    let reason: Vec<u8> = (0..*reason_len.min(&127)).map(|i| b'a' + i % 26).collect();
                    self.net_call(a as usize, "reject", |n, cb| {
                        let _ = n.reject(cb, pid, &reason);
                    })?;
                    self.local_call(a, "disconnect", |c, cb| {
                        let _ = c.disconnect(cb, &reason);
                    })?;
                    self.stats.rejects += 1;
                    self.compare_sends("reject")?;
                    self.remove_local(a);
                    true
                }
                _ => false,
            },
            Op::Ignore { p } => match self.pick_peer(*p) {
                Some(a) => {
                    let pid = self.locals[&a].pid;
                    self.net_call(a as usize, "ignore", |n, _| n.ignore(pid))?;
                    self.stats.ignores += 1;
                    self.remove_local(a);
                    self.compare_sends("ignore")?;
                    true
                }
                None => false,
            },
            Op::NetSend { p, vital, len } => match self.pick_peer(*p) {
                Some(a) if self.locals[&a].conn.verif_summary().0 == "Online" && self.locals[&a].conn.verif_summary().2 < 200 => {
                    let pid = self.locals[&a].pid;
                    self.serial += 1;
                    let data = payload(self.serial, (*len as usize).min(1023));
                    let vital = *vital;
                    let r1 = self.net_call(a as usize, "send", |n, cb| n.send(cb, Chunk { pid, vital, data: &data }).is_ok())?;
                    let r2 = self.local_call(a, "send", |c, cb| c.send(cb, &data, vital).is_ok())?;
                    if r1 != r2 {
                        return Err(format!("Net::send result {} differs from the independent connection's {}", r1, r2));
                    }
                    self.compare_sends("send")?;
                    true
                }
                _ => false,
            },
            Op::NetFlush { p } => match self.pick_peer(*p) {
                Some(a) if self.locals[&a].conn.verif_summary().0 == "Online" => {
                    let pid = self.locals[&a].pid;
                    self.net_call(a as usize, "flush", |n, cb| {
                        let _ = n.flush(cb, pid);
                    })?;
                    self.local_call(a, "flush", |c, cb| {
                        let _ = c.flush(cb);
                    })?;
                    self.compare_sends("flush")?;
                    true
                }
                _ => false,
            },
            Op::NetDisconnect { p, reason_len } => match self.pick_peer(*p) {
                Some(a) if !self.locals[&a].pending && self.locals[&a].conn.verif_summary().0 != "Disconnected" => {
                    let pid = self.locals[&a].pid;
                    let reason: Vec<u8> = (0..*reason_len.min(&127)).map(|i| b'A' + i % 26).collect();
                    self.net_call(a as usize, "disconnect", |n, cb| {
                        let _ = n.disconnect(cb, pid, &reason);
                    })?;
                    self.local_call(a, "disconnect", |c, cb| {
                        let _ = c.disconnect(cb, &reason);
                    })?;
                    self.stats.closes_local += 1;
                    self.compare_sends("disconnect")?;
                    self.remove_local(a);
                    true
                }
                _ => false,
            },
            Op::NetSendConnless { a, len } => {
                let a = *a % NADDR as u8;
                self.serial += 1;
                let data = payload(self.serial, (*len as usize).min(1500));
                let ok = self.net_call(a as usize, "send_connless", |n, cb| n.send_connless(cb, a, &data).is_ok())?;
                let out = std::mem::take(&mut self.cb.out);
                if ok {
                    if out.len() != 1 || out[0].0 != a {
                        return Err(format!("Net::send_connless to address {} sent {:?}", a, out.iter().map(|(x, d)| (*x, d.len())).collect::<Vec<_>>()));
                    }
                } else if !out.is_empty() {
                    return Err("Net::send_connless reported an error but sent something".to_string());
                }
                true
            }
            Op::NetTick => {
                self.net_call(0, "tick", |n, cb| {
                    for _e in n.tick(cb) {
                        burn();
                    }
                })?;
                let addrs: Vec<u8> = self.locals.keys().cloned().collect();
                for a in addrs {
                    self.local_call(a, "tick", |c, cb| {
                        let _ = c.tick(cb);
                    })?;
                }
                self.compare_sends("tick")?;
                true
            }
            Op::Advance { dt } => {
                self.now_us += DT_US[*dt as usize % DT_US.len()];
                true
            }
            Op::FailSends { on } => {
                self.cb.fail_sends = *on;
                true
            }
        };
        self.check_deadline()?;
        self.check_pids()?;
        Ok(applied)
    }
}

fn is_connect_packet(d: &[u8]) -> bool {
    // what the Net itself treats as a connect request from an unknown address
    let mut buf = [0u8; 2048];
    let mut w = Warnings::new();
    use libtw2_net::protocol::*;
    matches!(
        Packet::read(&mut w, d, None, &mut buf[..]),
        Ok(Packet::Connected(ConnectedPacket { type_: ConnectedPacketType::Control(ControlPacket::Connect), .. }))
    )
}

fn has_token_marker(d: &[u8]) -> bool {
    let mut buf = [0u8; 2048];
    let mut w = Warnings::new();
    use libtw2_net::protocol::*;
    matches!(Packet::read(&mut w, d, None, &mut buf[..]), Ok(Packet::Connected(ConnectedPacket { token: Some(_), .. })))
}

fn op_strategy() -> BoxedStrategy<Op> {
    let a = 0u8..NADDR as u8;
    let k = prop_oneof![3 => Just(0u16), 1 => any::<u16>()];
    prop_oneof![
        4 => (a.clone(), prop::bool::weighted(0.3)).prop_map(|(a, vanilla)| Op::RemoteConnect { a, vanilla }),
        6 => (a.clone(), prop::bool::weighted(0.7), 0u16..200).prop_map(|(a, vital, len)| Op::RemoteSend { a, vital, len }),
        4 => a.clone().prop_map(|a| Op::RemoteFlush { a }),
        3 => a.clone().prop_map(|a| Op::RemoteTick { a }),
        1 => a.clone().prop_map(|a| Op::RemoteDisconnect { a }),
        12 => (a.clone(), k.clone()).prop_map(|(a, k)| Op::DeliverToNet { a, k }),
        1 => (a.clone(), any::<u16>()).prop_map(|(a, k)| Op::DropToNet { a, k }),
        3 => (a.clone(), k.clone()).prop_map(|(a, k)| Op::RecodeToNet { a, k }),
        10 => (a.clone(), k.clone()).prop_map(|(a, k)| Op::DeliverToRemote { a, k }),
        2 => (a.clone(), a.clone(), any::<u16>()).prop_map(|(a, from, k)| Op::CrossFeed { a, from, k }),
        2 => (a.clone(), prop_oneof![
            proptest::collection::vec(any::<u8>(), 0..20),
            Just(CONNECT_PACKET.to_vec()),
            Just(CONNECT_PACKET_NO_TOKEN.to_vec()),
            Just(b"\x10\x00\x00\x04bye\x00".to_vec()),
            Just(b"\xff\xff\xff\xff\xff\xffinfo".to_vec()),
        ]).prop_map(|(a, data)| Op::Garbage { a, data }),
        3 => a.clone().prop_map(|a| Op::NetConnect { a }),
        6 => any::<u16>().prop_map(|p| Op::Accept { p }),
        1 => (any::<u16>(), 0u8..=127).prop_map(|(p, reason_len)| Op::Reject { p, reason_len }),
        1 => any::<u16>().prop_map(|p| Op::Ignore { p }),
        6 => (any::<u16>(), prop::bool::weighted(0.7), 0u16..200).prop_map(|(p, vital, len)| Op::NetSend { p, vital, len }),
        4 => any::<u16>().prop_map(|p| Op::NetFlush { p }),
        1 => (any::<u16>(), 0u8..=127).prop_map(|(p, reason_len)| Op::NetDisconnect { p, reason_len }),
        1 => (a, 0u16..1500).prop_map(|(a, len)| Op::NetSendConnless { a, len }),
        4 => Just(Op::NetTick),
        3 => (0u8..7).prop_map(|dt| Op::Advance { dt }),
        1 => prop::bool::weighted(0.4).prop_map(|on| Op::FailSends { on }),
    ]
    .boxed()
}

/// a prelude that brings two addresses online on an accepting endpoint
fn prelude_server() -> Vec<Op> {
    let mut v = Vec::new();
    for a in 0..2u8 {
        v.push(Op::RemoteConnect { a, vanilla: a == 1 });
        v.push(Op::DeliverToNet { a, k: 0 });
        v.push(Op::Accept { p: 0xffff });
        v.push(Op::DeliverToRemote { a, k: 0 });
        v.push(Op::DeliverToNet { a, k: 0 });
        v.push(Op::RemoteSend { a, vital: true, len: 10 });
        v.push(Op::RemoteFlush { a });
        v.push(Op::DeliverToNet { a, k: 0 });
    }
    v
}

fn case_strategy(max_ops: usize) -> impl Strategy<Value = Case> {
    (prop::bool::weighted(0.75), prop::bool::weighted(0.6), proptest::collection::vec(op_strategy(), 0..max_ops)).prop_map(|(server, prelude, mut ops)| {
        let mut v = if server && prelude { prelude_server() } else { Vec::new() };
        v.append(&mut ops);
        Case { server, ops: v }
    })
}

fn run_case(c: &Case, reject_open: bool) -> PResult {
    let mut w = World::new(c.server, reject_open);
    for (i, op) in c.ops.iter().enumerate() {
        match w.step(op) {
            Ok(true) => w.stats.applied += 1,
            Ok(false) => w.stats.skipped += 1,
            Err(msg) => return Err(format!("op #{} {:?}: {}", i, op, msg)),
        }
    }
    let s = &w.stats;
    Ok(Outcome::nt(s.online_addrs.len() >= 2 && s.interleaved)
        .class_if(c.server, "accepting_endpoint")
        .class_if(!c.server, "non_accepting_endpoint")
        .class_if(s.online_addrs.len() >= 2, "two_plus_addresses_online")
        .class_if(s.online_addrs.len() >= 3, "three_plus_addresses_online")
        .class_if(s.closes_remote > 0, "closed_by_remote")
        .class_if(s.closes_local > 0, "closed_locally")
        .class_if(s.garbage_unknown > 0, "datagram_from_unknown_address")
        .class_if(s.pid_after_removal > 0, "peer_again_after_removal")
        .class_if(s.rejects > 0, "reject")
        .class_if(s.ignores > 0, "ignore")
        .class_if(s.crossfeeds > 0, "cross_fed_datagram")
        .class_if(s.skipped_pending_feed > 0, "datagram_for_undecided_peer_dropped")
        .class_if(w.cb.failed > 0, "send_callback_failed")
        .class_if(s.recoded > 0, "datagram_recoded_to_compressed_form"))
}

pub fn run(ctx: &Ctx) {
    ctx.set_rule(
        "histories over one Net<u8> (accepting 75% / non-accepting) and 4 remote addresses: remote connections produce realistic handshakes, \
         chunks, acks and closes (token and vanilla clients); datagrams are delivered, dropped, delivered under another source address, or are \
         garbage; application calls connect/accept/reject/ignore/send/flush/disconnect/send_connless/tick with peers drawn from the live set; \
         non-trivial = at least two addresses reached Online and chunk traffic of different addresses interleaved; distinct by case hash",
    );
    ctx.assume("reference = independent libtw2 Connection per address fed the projected sub-history with the same clock and per-address random stream (differential against the single-connection layer, whose own properties are C01-C04)");
    ctx.assume("caller preconditions respected: pids from the live set, accept/reject only on pending peers, send/flush only when online, connect only to an address without a live peer");
    let reject_open = ctx.known_open(KEY_REJECT);
    if reject_open {
        ctx.add_excluded_known(1);
    }
    ctx.probe(KEY_REJECT, || {
        let c = Case {
            server: true,
            ops: vec![Op::RemoteConnect { a: 0, vanilla: false }, Op::DeliverToNet { a: 0, k: 0 }, Op::Reject { p: 0, reason_len: 4 }, Op::DeliverToRemote { a: 0, k: 0 }],
        };
        run_case(&c, false).map(|_| ())
    });
    let max_ops = ctx.sz(250, 1200) as usize;
    ctx.prop("histories", ctx.n(60_000, 4_000_000), || case_strategy(max_ops), |c: &Case| run_case(c, reject_open));
}
