//! Verification harness for heinrich5991/libtw2: property-based testing engine.
//!
//! One run is a pure function of (tree, VERIF_SEED, tier). See /verif/DESIGN.md.

#![allow(clippy::all)]

pub mod engine;
pub mod util;

pub mod netsim;

pub mod c01_vital;
pub mod c02_mesh;
pub mod c02_progress;
pub mod c03_token;
pub mod c04_wellformed;
pub mod c05_packet_rt;
pub mod c06_reader_total;
pub mod c07_huffman;
pub mod c08_packer;
pub mod c09_delta;
pub mod c10_snap_rt;
pub mod c11_manager;
pub mod c11_snap_total;
pub mod c12_receiver;
pub mod c13_manager;
pub mod c14_gamenet;
pub mod c15_demo;
pub mod c16_datafile;
pub mod c17_teehistorian;
pub mod c18_serverbrowse;
pub mod c19_buffer;
pub mod c20_net;

pub use engine::*;

#[global_allocator]
static GLOBAL: engine::CountingAlloc = engine::CountingAlloc;

pub type CheckFn = fn(&Ctx);

pub const CHECKS: &[(&str, CheckFn)] = &[
    ("C01", c01_vital::run),
    ("C02", c02_progress::run),
    ("C03", c03_token::run),
    ("C04", c04_wellformed::run),
    ("C05", c05_packet_rt::run),
    ("C06", c06_reader_total::run),
    ("C07", c07_huffman::run),
    ("C08", c08_packer::run),
    ("C09", c09_delta::run),
    ("C10", c10_snap_rt::run),
    ("C11", c11_snap_total::run),
    ("C12", c12_receiver::run),
    ("C13", c13_manager::run),
    ("C14", c14_gamenet::run),
    ("C15", c15_demo::run),
    ("C16", c16_datafile::run),
    ("C17", c17_teehistorian::run),
    ("C18", c18_serverbrowse::run),
    ("C19", c19_buffer::run),
    ("C20", c20_net::run),
];

/// Fuzz targets and raw replays: (target name, property, oracle over plain bytes).
pub const FUZZ_TARGETS: &[(&str, &str, fn(&[u8]) -> Result<(), String>)] = &[
    ("packet6", "C06", |d| c06_reader_total::check_bytes(d, false).map(|_| ())),
    ("packet7", "C06", |d| c06_reader_total::check_bytes(d, true).map(|_| ())),
    ("huffman_decode", "C07", |d| {
        if d.len() < 2 {
            return Ok(());
        }
        let cap = u16::from_le_bytes([d[0], d[1]]) as usize % 4096;
        c07_huffman::check_decode(&d[2..], cap).map(|_| ())?;
        c07_huffman::check_decode_vec(&d[2..]).map(|_| ())
    }),
    ("huffman_compress", "C07", |d| c07_huffman::check_compress(d).map(|_| ())),
    ("snap_read", "C11", |d| {
        let k = c11_snap_total::Known::from_keys(&["create-size-mismatch"]);
        c11_snap_total::oracle_snap_bytes(&k, d, true).map(|_| ())
    }),
    ("delta_apply", "C11", |d| {
        // first byte: length (in varints) of the base snapshot part; rest: base snapshot bytes ++ delta bytes
        if d.is_empty() {
            return Ok(());
        }
        let k = c11_snap_total::Known::from_keys(&["create-size-mismatch"]);
        let split = (d[0] as usize * (d.len() - 1)) / 255;
        let (base, delta) = d[1..].split_at(split.min(d.len() - 1));
        let (base_ints, _) = c11_snap_total::decode_varints(base);
        c11_snap_total::oracle_delta_bytes(&k, c11_snap_total::Table::V06, delta, &base_ints, true).map(|_| ())
    }),
    ("gamenet", "C14", c14_gamenet::fuzz_bytes),
    ("datafile", "C16", c16_datafile::check_bytes),
    ("teehistorian", "C17", c17_teehistorian::fuzz_bytes),
    ("serverbrowse", "C18", c18_serverbrowse::check_datagram),
];

pub fn fuzz_entry(target: &str, data: &[u8]) -> Result<(), String> {
    match FUZZ_TARGETS.iter().find(|t| t.0 == target) {
        Some(t) => match guard(|| (t.2)(data)) {
            Ok(r) => r,
            Err(p) => Err(format!("unexpected {}", p)),
        },
        None => Err(format!("unknown fuzz target {}", target)),
    }
}

/// Small valid inputs per fuzz target, produced by the generators of the PBT checks
/// (`check --emit-corpus DIR` writes them; the committed copy lives in /verif/corpus).
pub fn seed_corpus(target: &str) -> Vec<Vec<u8>> {
    use c05_packet_rt::{write_case, Body, Ctrl, PCase};
    let packets = |is7: bool| -> Vec<Vec<u8>> {
        let cases = vec![
            PCase::Connless { family: 3, len: 20, seed: 1, token: [1, 2, 3, 4], response_token: [5, 6, 7, 8] },
            PCase::Control { ack: 5, token: Some([9, 8, 7, 6]), ctrl: Ctrl::KeepAlive, response_token: [1, 1, 1, 1] },
            PCase::Control { ack: 0, token: Some([0xff; 4]), ctrl: Ctrl::Connect, response_token: [2, 2, 2, 2] },
            PCase::Control { ack: 0, token: Some([9, 8, 7, 6]), ctrl: Ctrl::ConnectAcceptOrToken, response_token: [3, 3, 3, 3] },
            PCase::Control { ack: 1, token: None, ctrl: Ctrl::Accept, response_token: [1, 1, 1, 1] },
            PCase::Control { ack: 1023, token: Some([9, 8, 7, 6]), ctrl: Ctrl::Close(b"too slow".to_vec()), response_token: [1, 1, 1, 1] },
            PCase::Control { ack: 3, token: None, ctrl: Ctrl::Close(vec![]), response_token: [1, 1, 1, 1] },
            PCase::Chunks { ack: 7, token: Some([9, 8, 7, 6]), request_resend: false, body: Body::Chunks(vec![(Some((8, false)), 3, 20, 1), (None, 4, 5, 2), (Some((9, true)), 0, 40, 0)]) },
            PCase::Chunks { ack: 7, token: None, request_resend: true, body: Body::Chunks(vec![]) },
            PCase::Chunks { ack: 300, token: Some([1, 2, 3, 4]), request_resend: false, body: Body::Raw { num_chunks: 2, family: 0, len: 600, seed: 0 } },
            PCase::Chunks { ack: 300, token: Some([1, 2, 3, 4]), request_resend: false, body: Body::Raw { num_chunks: 1, family: 4, len: 100, seed: 9 } },
        ];
        cases.iter().filter_map(|c| write_case(c, is7).ok().map(|x| x.0)).collect()
    };
    match target {
        "packet6" => packets(false),
        "packet7" => packets(true),
        "huffman_decode" | "huffman_compress" => {
            let mut v = Vec::new();
            for plain in [&b""[..], &b"\0\0\0\0\0\0\0\0"[..], &b"hello world"[..], &[0, 1, 0, 2, 0, 0x80, 0][..], &[0xff; 40][..]] {
                if target == "huffman_compress" {
                    v.push(plain.to_vec());
                } else {
                    let mut out: Vec<u8> = Vec::with_capacity(plain.len() * 3 + 16);
                    let _ = libtw2_huffman::instances::TEEWORLDS.compress(plain, &mut out);
                    let mut d = (plain.len() as u16 + 1).to_le_bytes().to_vec();
                    d.extend_from_slice(&out);
                    v.push(d);
                }
            }
            v
        }
        "snap_read" | "delta_apply" => {
            let items: Vec<Vec<(u32, Vec<i32>)>> = vec![
                vec![],
                vec![(0x0001_0000, vec![7]), (0x0001_0001, vec![1, 2, 3]), (0x0005_0000, vec![])],
                vec![(0x0000_4000, vec![0x1234_5678, 0x0abc_def0, 0x1111_2222, 0x3333_4444]), (0x4000_0003, vec![5, 6]), (0x0004_0002, vec![-1, i32::MIN, i32::MAX])],
            ];
            let mut v = Vec::new();
            for it in &items {
                let (ints, _) = c11_snap_total::snap_wire(it);
                let bytes = c11_snap_total::varints(&ints);
                if target == "snap_read" {
                    v.push(bytes);
                } else {
                    // base snapshot ++ delta; first byte = split position (x/255 of the rest)
                    for delta in [vec![0, 0, 0], vec![0, 1, 0, 1, 0, 1, 5], vec![1, 1, 0, 0x0001_0000, 4, 9, 2, 1, 2]] {
                        let d = c11_snap_total::varints(&delta);
                        let total = bytes.len() + d.len();
                        let split = if total == 0 { 0 } else { (bytes.len() * 255 + total - 1) / total };
                        let mut x = vec![split.min(255) as u8];
                        x.extend_from_slice(&bytes);
                        x.extend_from_slice(&d);
                        v.push(x);
                    }
                }
            }
            v
        }
        "gamenet" => vec![vec![0, 1], vec![1, 2, 0], vec![2 | 4, 40, 0], vec![3 | 8, 0xff, 0xff, 0xff, 0xff, b'i', b'n', b'f', b'o'], vec![1 | 12, 5, 0, 1, 0, 0, 0, 2, 0, 0, 0, 3, 0, 0, 0, 4, 0, 0, 0]],
        "datafile" => {
            use c16_datafile::{write_model, MData, MItem, Model};
            let mut v = Vec::new();
            for (version, crude) in [(3u8, false), (4, false), (4, true)] {
                let m = Model {
                    version,
                    crude,
                    reversed_magic: false,
                    items: vec![
                        MItem { type_id: 0, id: 0, data: vec![1], pad: 0 },
                        MItem { type_id: 1, id: 0, data: vec![1, 0, -1, 3], pad: 0 },
                        MItem { type_id: 5, id: 0, data: vec![], pad: 0 },
                        MItem { type_id: 5, id: 2, data: vec![7, 8], pad: 0 },
                    ],
                    data: vec![MData { bytes: b"hello datafile".to_vec(), comp: 0, split: 3 }, MData { bytes: vec![], comp: 1, split: 1 }, MData { bytes: vec![0; 64], comp: 4, split: 0 }],
                };
                v.push(write_model(&m));
            }
            v
        }
        "teehistorian" => c17_teehistorian::seed_streams(),
        "serverbrowse" => c18_serverbrowse::seed_datagrams(),
        _ => Vec::new(),
    }
}
