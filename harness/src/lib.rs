//! Verification harness for heinrich5991/libtw2: property-based testing engine.
//!
//! One run is a pure function of (tree, VERIF_SEED, tier). See /verif/DESIGN.md.

#![allow(clippy::all)]

pub mod engine;
pub mod util;

pub mod netsim;

pub mod c01_vital;
pub mod c02_progress;
pub mod c03_token;
pub mod c04_wellformed;
pub mod c05_packet_rt;
pub mod c06_reader_total;
pub mod c07_huffman;
pub mod c08_packer;
pub mod c09_delta;
pub mod c10_snap_rt;
pub mod c11_snap_total;
pub mod c12_receiver;
pub mod c13_manager;
pub mod c14_gamenet;
pub mod c15_demo;
pub mod c16_datafile;
pub mod c17_teehistorian;
pub mod c18_serverbrowse;
pub mod c19_buffer;
pub mod c20_net;

pub use engine::*;

#[global_allocator]
static GLOBAL: engine::CountingAlloc = engine::CountingAlloc;

pub type CheckFn = fn(&Ctx);

pub const CHECKS: &[(&str, CheckFn)] = &[
    ("C01", c01_vital::run),
    ("C02", c02_progress::run),
    ("C03", c03_token::run),
    ("C04", c04_wellformed::run),
    ("C05", c05_packet_rt::run),
    ("C06", c06_reader_total::run),
    ("C07", c07_huffman::run),
    ("C08", c08_packer::run),
    ("C09", c09_delta::run),
    ("C10", c10_snap_rt::run),
    ("C11", c11_snap_total::run),
    ("C12", c12_receiver::run),
    ("C13", c13_manager::run),
    ("C14", c14_gamenet::run),
    ("C15", c15_demo::run),
    ("C16", c16_datafile::run),
    ("C17", c17_teehistorian::run),
    ("C18", c18_serverbrowse::run),
    ("C19", c19_buffer::run),
    ("C20", c20_net::run),
];

/// Fuzz targets and raw replays: (target name, property, oracle over plain bytes).
pub const FUZZ_TARGETS: &[(&str, &str, fn(&[u8]) -> Result<(), String>)] = &[
    ("packet6", "C06", |d| c06_reader_total::check_bytes(d, false).map(|_| ())),
    ("packet7", "C06", |d| c06_reader_total::check_bytes(d, true).map(|_| ())),
    ("huffman_decode", "C07", |d| {
        if d.len() < 2 {
            return Ok(());
        }
        let cap = u16::from_le_bytes([d[0], d[1]]) as usize % 4096;
        c07_huffman::check_decode(&d[2..], cap).map(|_| ())?;
        c07_huffman::check_decode_vec(&d[2..]).map(|_| ())
    }),
    ("huffman_compress", "C07", |d| c07_huffman::check_compress(d).map(|_| ())),
    ("snap_read", "C11", |d| {
        let k = c11_snap_total::Known::from_keys(&["create-size-mismatch"]);
        c11_snap_total::oracle_snap_bytes(&k, d, true).map(|_| ())
    }),
    ("delta_apply", "C11", |d| {
        // first byte: length (in varints) of the base snapshot part; rest: base snapshot bytes ++ delta bytes
        if d.is_empty() {
            return Ok(());
        }
        let k = c11_snap_total::Known::from_keys(&["create-size-mismatch"]);
        let split = (d[0] as usize * (d.len() - 1)) / 255;
        let (base, delta) = d[1..].split_at(split.min(d.len() - 1));
        let (base_ints, _) = c11_snap_total::decode_varints(base);
        c11_snap_total::oracle_delta_bytes(&k, c11_snap_total::Table::V06, delta, &base_ints, true).map(|_| ())
    }),
    ("gamenet", "C14", c14_gamenet::fuzz_bytes),
    ("datafile", "C16", c16_datafile::check_bytes),
    ("teehistorian", "C17", c17_teehistorian::fuzz_bytes),
    ("serverbrowse", "C18", c18_serverbrowse::check_datagram),
];

pub fn fuzz_entry(target: &str, data: &[u8]) -> Result<(), String> {
    match FUZZ_TARGETS.iter().find(|t| t.0 == target) {
        Some(t) => match guard(|| (t.2)(data)) {
            Ok(r) => r,
            Err(p) => Err(format!("unexpected {}", p)),
        },
        None => Err(format!("unknown fuzz target {}", target)),
    }
}
