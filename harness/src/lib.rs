//! Verification harness for heinrich5991/libtw2: property-based testing engine.
//!
//! One run is a pure function of (tree, VERIF_SEED, tier). See /verif/DESIGN.md.

#![allow(clippy::all)]

pub mod engine;
pub mod util;

pub mod netsim;

pub mod c01_vital;
pub mod c02_progress;
pub mod c03_token;
pub mod c04_wellformed;
pub mod c05_packet_rt;
pub mod c06_reader_total;
pub mod c07_huffman;
pub mod c08_packer;
pub mod c09_delta;
pub mod c10_snap_rt;
pub mod c11_snap_total;
pub mod c12_receiver;
pub mod c13_manager;
pub mod c14_gamenet;
pub mod c15_demo;
pub mod c16_datafile;
pub mod c17_teehistorian;
pub mod c18_serverbrowse;
pub mod c19_buffer;
pub mod c20_net;

pub use engine::*;

#[global_allocator]
static GLOBAL: engine::CountingAlloc = engine::CountingAlloc;

pub type CheckFn = fn(&Ctx);

pub const CHECKS: &[(&str, CheckFn)] = &[
    ("C01", c01_vital::run),
    ("C02", c02_progress::run),
    ("C03", c03_token::run),
    ("C04", c04_wellformed::run),
    ("C05", c05_packet_rt::run),
    ("C06", c06_reader_total::run),
    ("C07", c07_huffman::run),
    ("C08", c08_packer::run),
    ("C09", c09_delta::run),
    ("C10", c10_snap_rt::run),
    ("C11", c11_snap_total::run),
    ("C12", c12_receiver::run),
    ("C13", c13_manager::run),
    ("C14", c14_gamenet::run),
    ("C15", c15_demo::run),
    ("C16", c16_datafile::run),
    ("C17", c17_teehistorian::run),
    ("C18", c18_serverbrowse::run),
    ("C19", c19_buffer::run),
    ("C20", c20_net::run),
];
