//! Small helpers shared by the property modules.

use libtw2_warn::Warn;
use std::fmt::Debug;

pub fn hex(b: &[u8]) -> String {
    let mut s = String::with_capacity(b.len() * 2);
    for x in b {
        s.push_str(&format!("{:02x}", x));
    }
    s
}

pub fn unhex(s: &str) -> Vec<u8> {
    (0..s.len() / 2)
        .map(|i| u8::from_str_radix(&s[2 * i..2 * i + 2], 16).unwrap())
        .collect()
}

/// Warning sink that records the Debug rendering of every warning.
#[derive(Default, Debug)]
pub struct Warnings(pub Vec<String>);

impl<W: Debug> Warn<W> for Warnings {
    fn warn(&mut self, w: W) {
        self.0.push(format!("{:?}", w));
    }
}

impl Warnings {
    pub fn new() -> Warnings {
        Warnings(Vec::new())
    }
    pub fn is_empty(&self) -> bool {
        self.0.is_empty()
    }
}

/// A byte window inside a larger allocation with canaries on both sides.
pub struct Canary {
    pub mem: Vec<u8>,
    pub pad: usize,
    pub len: usize,
}

pub const CANARY_BYTE: u8 = 0xA5;

impl Canary {
    pub fn new(len: usize) -> Canary {
        let pad = 64;
        Canary {
            mem: vec![CANARY_BYTE; len + 2 * pad],
            pad,
            len,
        }
    }
    pub fn window(&mut self) -> &mut [u8] {
        let (p, l) = (self.pad, self.len);
        &mut self.mem[p..p + l]
    }
    pub fn window_ref(&self) -> &[u8] {
        &self.mem[self.pad..self.pad + self.len]
    }
    pub fn intact(&self) -> bool {
        self.mem[..self.pad].iter().all(|&b| b == CANARY_BYTE)
            && self.mem[self.pad + self.len..].iter().all(|&b| b == CANARY_BYTE)
    }
    pub fn range(&self) -> (usize, usize) {
        let start = self.mem.as_ptr() as usize + self.pad;
        (start, start + self.len)
    }
}

/// Is `inner` entirely inside `[start, end)` (empty slices are accepted anywhere inside or at the edges)?
pub fn within(inner: &[u8], range: (usize, usize)) -> bool {
    let s = inner.as_ptr() as usize;
    let e = s + inner.len();
    if inner.is_empty() {
        return true;
    }
    s >= range.0 && e <= range.1
}

pub fn slice_range(s: &[u8]) -> (usize, usize) {
    let p = s.as_ptr() as usize;
    (p, p + s.len())
}
