#![no_main]
// libFuzzer target: the semantic oracle of the property lives in the harness (vh::fuzz_entry).
use libfuzzer_sys::fuzz_target;

fuzz_target!(|data: &[u8]| {
    if let Err(e) = vh::fuzz_entry("snap_read", data) {
        panic!("oracle failure in fuzz target snap_read: {}", e);
    }
});
