#!/bin/bash
# usage: check.sh <ID> [quick|thorough] [--replay FILE]
# Rebuilds the harness against /repo's current working tree (hooks on: --cfg libtw2_verif via
# harness/.cargo/config.toml) and runs one property check.
# exit 0 = held; 1 = VIOLATION printed; 2 = inconclusive (build failure, watchdog, bad usage)
set -u
ID="${1:?property id}"
TIER="${2:-${VERIF_TIER:-quick}}"
shift; shift 2>/dev/null || true
HERE="$(cd "$(dirname "$0")" && pwd)"
cd "$HERE/harness" || exit 2
export CARGO_NET_OFFLINE=true
export CARGO_TERM_COLOR=never
LOG="$HERE/harness/target/build-$$.log"
mkdir -p "$HERE/harness/target"
(
  flock 9
  cargo build --release --bin check >"$LOG" 2>&1
) 9>"$HERE/harness/target/.build.lock"
if [ $? -ne 0 ]; then
  echo "INCONCLUSIVE: harness build against /repo failed (see below); not a violation"
  tail -n 40 "$LOG"
  rm -f "$LOG"
  exit 2
fi
rm -f "$LOG"
"$HERE/harness/target/release/check" "$ID" --tier "$TIER" "$@"
code=$?
# thorough tier: coverage-guided fuzzing campaigns (byte-level properties) and the ASan replay (C19)
if [ "$TIER" = "thorough" ] && [ $# -eq 0 ] && [ $code -ne 2 ]; then
  python3 "$HERE/tools/fuzz_stage.py" "$ID"; c2=$?
  [ $c2 -eq 1 ] && code=1
  [ $c2 -eq 2 ] && [ $code -eq 0 ] && code=2
  if [ "$ID" = "C19" ]; then
    "$HERE/tools/asan_replay.sh"; c3=$?
    [ $c3 -eq 1 ] && code=1
    [ $c3 -eq 2 ] && [ $code -eq 0 ] && code=2
  fi
fi
exit $code
