#!/bin/bash
# usage: check.sh <ID> [quick|thorough] [--replay FILE]
# Rebuilds the harness against /repo's current working tree (hooks on: --cfg libtw2_verif via
# harness/.cargo/config.toml) and runs one property check.
# exit 0 = held; 1 = VIOLATION printed; 2 = inconclusive (build failure, watchdog, bad usage)
set -u
ID="${1:?property id}"
TIER="${2:-${VERIF_TIER:-quick}}"
shift; shift 2>/dev/null || true
HERE="$(cd "$(dirname "$0")" && pwd)"
cd "$HERE/harness" || exit 2
export CARGO_NET_OFFLINE=true
export CARGO_TERM_COLOR=never
LOG="$HERE/harness/target/build-$$.log"
mkdir -p "$HERE/harness/target"
(
  flock 9
  cargo build --release --bin check >"$LOG" 2>&1
) 9>"$HERE/harness/target/.build.lock"
if [ $? -ne 0 ]; then
  echo "INCONCLUSIVE: harness build against /repo failed (see below); not a violation"
  tail -n 40 "$LOG"
  rm -f "$LOG"
  exit 2
fi
rm -f "$LOG"
exec "$HERE/harness/target/release/check" "$ID" --tier "$TIER" "$@"
