#!/bin/bash
# Thorough-tier stage of C19 (memory-safety half): rebuild the whole harness (all 20 checks, the bundled
# C++ references included) with AddressSanitizer and replay a reduced quick tier of every check under it.
# Prints one line per check; any ASan report => VIOLATION property=C19. Exit 0/1/2.
set -u
HERE="$(cd "$(dirname "$0")/.." && pwd)"
cd "$HERE/harness" || exit 2
export CARGO_NET_OFFLINE=true
SCRATCH="$HERE/harness/target-asan/root"
mkdir -p "$SCRATCH"
cp "$HERE/known_findings.json" "$SCRATCH/known_findings.json"
LOG="$HERE/harness/target-asan/build.log"
RUSTFLAGS="-Zsanitizer=address --cfg libtw2_verif" CFLAGS="-fsanitize=address" CXXFLAGS="-fsanitize=address" \
  cargo +nightly build --release --bin check --target x86_64-unknown-linux-gnu --target-dir "$HERE/harness/target-asan" >"$LOG" 2>&1
if [ $? -ne 0 ]; then
  echo "INCONCLUSIVE: ASan build of the harness failed (not a violation)"; tail -n 30 "$LOG"; exit 2
fi
BIN="$HERE/harness/target-asan/x86_64-unknown-linux-gnu/release/check"
reports=0; cases=0; details=""
for id in $(python3 -c "import json; print(' '.join(c['property_id'] for c in json.load(open('$HERE/MANIFEST.json'))['checks']))"); do
  out=$(VERIF_ROOT="$SCRATCH" VERIF_SCALE="${VERIF_ASAN_SCALE:-0.05}" ASAN_OPTIONS=detect_leaks=0:abort_on_error=0:exitcode=99 "$BIN" "$id" --tier quick 2>&1)
  code=$?
  n=$(echo "$out" | grep -E "^$id:" | sed -E 's/.*evaluations=([0-9]+).*/\1/')
  cases=$((cases + ${n:-0}))
  if echo "$out" | grep -q "ERROR: AddressSanitizer"; then
    reports=$((reports + 1))
    f="$HERE/replays/C19/found/asan-$id.txt"; mkdir -p "$(dirname "$f")"; echo "$out" | grep -A40 "ERROR: AddressSanitizer" | head -80 > "$f"
    echo "VIOLATION property=C19 replay=$f"
    echo "  section=asan/$id reason: $(echo "$out" | grep -m1 'ERROR: AddressSanitizer')"
  fi
  echo "asan $id: exit=$code evaluations=${n:-?}"
done
python3 - "$HERE/evidence/C19.json" "$cases" "$reports" <<'PY'
import json, sys
p, cases, reports = sys.argv[1], int(sys.argv[2]), int(sys.argv[3])
try:
    ev = json.load(open(p))
    ev["coverage"]["asan_cases"] = cases
    ev["coverage"]["asan_reports"] = reports
    if reports:
        ev["violations"] = ev.get("violations", 0) + reports
    json.dump(ev, open(p, "w"), indent=1)
except Exception as e:
    print("note: could not update evidence:", e)
PY
rm -rf "$SCRATCH"
[ "$reports" -eq 0 ] && exit 0 || exit 1
