#!/bin/bash
# usage: mutant_bench.sh <patch-file> <ID> [<ID>...]
# Like try_mutant.sh but fully isolated from /repo: uses a scratch worktree /tmp/mb/repo and a copy of the
# harness (/tmp/mb/harness, path deps rewritten), so it can run while /repo is in use by another run.
# Create the bench first:  git -C /repo worktree add --detach /tmp/mb/repo HEAD
# Remove it when done:     git -C /repo worktree remove --force /tmp/mb/repo; rm -rf /tmp/mb
set -u
PATCH="$1"; shift
B=/tmp/mb
cd $B/repo || exit 2
git checkout -q -- . && git clean -fdq
mkdir -p $B/harness $B/root
# the harness copy is refreshed only on request (SYNC=1) or when missing, so that work in progress
# in /verif/harness does not leak into a running batch
if [ -n "${SYNC:-}" ] || [ ! -f $B/harness/Cargo.toml ]; then
  rsync -a --delete --exclude target --exclude target-asan /verif/harness/ $B/harness/
  sed -i 's#path = "/repo/#path = "/tmp/mb/repo/#' $B/harness/Cargo.toml
fi
rm -rf $B/root/replays; cp /verif/known_findings.json $B/root/; [ -d $B/root/corpus ] || cp -r /verif/corpus $B/root/ 2>/dev/null
mkdir -p $B/root/replays; for d in /verif/replays/*; do mkdir -p $B/root/replays/$(basename $d); cp $d/*.json $B/root/replays/$(basename $d)/ 2>/dev/null; done
if [ "$PATCH" != "-" ]; then git apply "$PATCH" || { echo "patch does not apply"; exit 2; }; fi
( cd $B/harness && CARGO_NET_OFFLINE=true cargo build --release --bin check >$B/build.log 2>&1 ) || { echo "BUILD FAILED"; tail -20 $B/build.log; git checkout -q -- .; exit 2; }
for id in "$@"; do
  out=$(VERIF_ROOT=$B/root $B/harness/target/release/check "$id" --tier "${TIER:-quick}" 2>&1)
  code=$?
  echo "== $id exit=$code"
  echo "$out" | grep -E "VIOLATION|reason:|INCONCLUSIVE|KNOWN-FINDING|^C[0-9]+:" | cut -c1-400 | head -8
done
git checkout -q -- .
