#!/usr/bin/env python3
"""Thorough-tier stage: coverage-guided libFuzzer campaigns for one property.

usage: fuzz_stage.py <ID>
Builds the cargo-fuzz targets of the property against /repo's current tree (ASan + debug assertions),
runs each with a fixed number of runs and -seed=VERIF_SEED from a fresh copy of the committed seed
corpus, turns a crash artifact into a JSON replay file and a VIOLATION line, and records what was
covered in the property's evidence file. Exit: 0 ok, 1 violation, 2 inconclusive (build failure etc.).
"""
import json, os, re, shutil, subprocess, sys, time, binascii, concurrent.futures

ROOT = os.path.dirname(os.path.dirname(os.path.abspath(__file__)))
TARGETS = {
    "C06": ["packet6", "packet7"],
    "C07": ["huffman_decode", "huffman_compress"],
    "C11": ["snap_read", "delta_apply"],
    "C14": ["gamenet"],
    "C16": ["datafile"],
    "C17": ["teehistorian"],
    "C18": ["serverbrowse"],
}
# fixed work per campaign, sized for roughly 2-5 minutes per target on an idle 16-core machine
# (the oracle inside the target is much heavier than a bare parser call); scale with VERIF_FUZZ_SCALE
RUNS = {"packet6": 400_000, "packet7": 400_000, "huffman_decode": 400_000, "huffman_compress": 300_000,
        "snap_read": 300_000, "delta_apply": 300_000, "gamenet": 600_000, "datafile": 100_000,
        "teehistorian": 150_000, "serverbrowse": 600_000}

def env():
    e = dict(os.environ)
    e["CARGO_NET_OFFLINE"] = "true"
    e["RUSTFLAGS"] = (e.get("RUSTFLAGS", "") + " --cfg libtw2_verif").strip()
    e.setdefault("VERIF_ROOT", ROOT)
    return e

def run_target(pid, target, seed, scale):
    work = os.path.join(ROOT, "fuzz", "corpus-run", "%s-%d" % (target, os.getpid()))
    shutil.rmtree(work, ignore_errors=True)
    os.makedirs(os.path.join(work, "corpus"))
    os.makedirs(os.path.join(work, "artifacts"))
    seeds = os.path.join(ROOT, "corpus", target)
    if os.path.isdir(seeds):
        for f in os.listdir(seeds):
            shutil.copy(os.path.join(seeds, f), os.path.join(work, "corpus", f))
    runs = max(1000, int(RUNS[target] * scale))
    cmd = ["cargo", "+nightly", "fuzz", "run", "--fuzz-dir", os.path.join(ROOT, "fuzz"), target, os.path.join(work, "corpus"), "--",
           "-runs=%d" % runs, "-seed=%d" % (seed % (2**32) or 1), "-len_control=0", "-max_len=4096", "-timeout=60",
           "-rss_limit_mb=6000", "-artifact_prefix=%s/" % os.path.join(work, "artifacts"), "-print_final_stats=1"]
    t0 = time.time()
    p = subprocess.run(cmd, cwd=ROOT, env=env(), capture_output=True, text=True)
    out = p.stdout + p.stderr
    info = {"target": target, "runs_requested": runs, "wall_s": round(time.time() - t0, 1), "exit": p.returncode}
    m = re.findall(r"#(\d+)\s+DONE\s+cov: (\d+) ft: (\d+) corp: (\d+)", out)
    if m:
        info.update(runs=int(m[-1][0]), cov=int(m[-1][1]), ft=int(m[-1][2]), corpus=int(m[-1][3]))
    m = re.search(r"stat::number_of_executed_units:\s+(\d+)", out)
    if m:
        info["runs"] = int(m.group(1))
    art_dirs = [os.path.join(work, "artifacts"), os.path.join(ROOT, "fuzz", "artifacts", target)]
    found = [(d, f) for d in art_dirs if os.path.isdir(d) for f in sorted(os.listdir(d))]
    arts = [f for _, f in found]
    violation = None
    if arts:
        a = os.path.join(found[0][0], found[0][1])
        data = open(a, "rb").read()
        kind = arts[0].split("-")[0]
        info["artifact_kind"] = kind
        if kind in ("timeout", "oom", "slow"):
            info["inconclusive"] = "libFuzzer reported %s (time/memory budget), not a violation" % kind
        else:
            d = os.path.join(env()["VERIF_ROOT"], "replays", pid, "found")
            os.makedirs(d, exist_ok=True)
            path = os.path.join(d, "fuzz_%s-%s.json" % (target, arts[0][-16:]))
            msg = ""
            mm = re.search(r"oracle failure in fuzz target[^\n]*", out)
            if mm:
                msg = mm.group(0)
            elif "AddressSanitizer" in out:
                mm = re.search(r"ERROR: AddressSanitizer[^\n]*", out)
                msg = mm.group(0) if mm else "AddressSanitizer report"
            else:
                mm = re.search(r"panicked at[^\n]*\n[^\n]*", out)
                msg = mm.group(0) if mm else "crash"
            json.dump({"property": pid, "section": "fuzz/" + target, "case": {"hex": binascii.hexlify(data).decode()}, "message": msg[:2000]}, open(path, "w"), indent=1)
            violation = (path, msg)
    elif p.returncode != 0:
        info["inconclusive"] = "cargo fuzz exited %d without an artifact: %s" % (p.returncode, out[-600:])
    shutil.rmtree(work, ignore_errors=True)
    shutil.rmtree(os.path.join(ROOT, "fuzz", "artifacts", target), ignore_errors=True)
    return info, violation

def main():
    pid = sys.argv[1]
    targets = TARGETS.get(pid, [])
    if not targets:
        return 0
    seed = int(os.environ.get("VERIF_SEED", "20260923") or 0)
    scale = float(os.environ.get("VERIF_FUZZ_SCALE", "1"))
    # build first (serialised), so that a build failure is reported as such
    for t in targets:
        b = subprocess.run(["cargo", "+nightly", "fuzz", "build", "--fuzz-dir", os.path.join(ROOT, "fuzz"), t], cwd=ROOT, env=env(), capture_output=True, text=True)
        if b.returncode != 0:
            print("INCONCLUSIVE: cargo fuzz build %s failed; not a violation" % t)
            print((b.stdout + b.stderr)[-1500:])
            return 2
    with concurrent.futures.ThreadPoolExecutor(max_workers=len(targets)) as ex:
        results = list(ex.map(lambda t: run_target(pid, t, seed, scale), targets))
    code = 0
    infos = []
    for info, violation in results:
        infos.append(info)
        if violation:
            print("VIOLATION property=%s replay=%s" % (pid, violation[0]))
            print("  section=fuzz/%s reason: %s" % (info["target"], violation[1][:1500]))
            code = 1
        elif "inconclusive" in info and code == 0:
            print("INCONCLUSIVE: fuzz target %s: %s" % (info["target"], info["inconclusive"][:400]))
            code = 2
        print("fuzz %s: %s" % (info["target"], {k: v for k, v in info.items() if k != "target"}))
    evp = os.path.join(env()["VERIF_ROOT"], "evidence", pid + ".json")
    try:
        ev = json.load(open(evp))
        ev["coverage"]["fuzz"] = infos
        ev["coverage"]["evaluations"] += sum(i.get("runs", 0) for i in infos)
        if code == 1:
            ev["violations"] = ev.get("violations", 0) + sum(1 for _, v in results if v)
        json.dump(ev, open(evp, "w"), indent=1)
    except Exception as e:
        print("note: could not update evidence:", e)
    return code

sys.exit(main())
