#!/usr/bin/env python3
"""usage: store_round.py <round> <out-root> <verify-log> <bench-log> [<bench-log>...] [--missed ID=text ...]
Stores all 20 confirmed seeded changes of a round (tools/store_seed.py) with a caught_by text compiled from
the mutant-bench logs: the sections of the property's quick check that reported a violation and the first reason."""
import re, subprocess, sys
rnd = int(sys.argv[1]); root = sys.argv[2]; vlog = sys.argv[3]
logs = [a for a in sys.argv[4:] if not a.startswith("--") and "=" not in a]
missed = dict(a.split("=", 1) for a in sys.argv[4:] if "=" in a and not a.startswith("--"))
text = "\n".join(open(l).read() for l in logs)
blocks = {}
for m in re.finditer(r"######## (C\d\d)-r%d\n(.*?)(?=\n######## |\nALLDONE|\nR4DONE|\Z)" % rnd, text, re.S):
    blocks[m.group(1)] = m.group(2)   # later logs override earlier ones
for i in range(1, 21):
    pid = "C%02d" % i
    b = blocks.get(pid, "")
    # only the part for the property's own check
    own = re.search(r"== %s exit=(\d)(.*?)(?=\n== |\Z)" % pid, b, re.S)
    assert own, (pid, b[:200])
    code = own.group(1)
    secs = re.findall(r"section=(\S+) reason: (.*)", own.group(2))
    assert code == "1" and secs, (pid, code)
    names = ", ".join(dict.fromkeys(s for s, _ in secs))
    reason = re.sub(r"/tmp/mb/repo/", "", secs[0][1])[:260]
    caught = "%s quick: %s: %s" % (pid, names, reason)
    others = re.findall(r"== (C\d\d) exit=1", b)
    others = [o for o in others if o != pid]
    if others:
        caught += " (also reported by %s quick)" % ", ".join(others)
    if pid in missed:
        caught = "MISSED by %s as it stood (%s). Caught after the change: %s" % (pid, missed[pid], caught)
    subprocess.check_call(["python3", "/verif/tools/store_seed.py", pid, "%s/%s" % (root, pid), str(rnd), caught, vlog])
