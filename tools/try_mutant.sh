#!/bin/bash
# usage: try_mutant.sh <patch-file> <ID> [<ID>...]   - applies a patch to /repo, runs quick checks, reverts
set -u
PATCH="$1"; shift
cd /repo || exit 2
if ! git diff --quiet; then echo "/repo has local changes; refusing"; exit 2; fi
mkdir -p /tmp/mutant-root && cp /verif/known_findings.json /tmp/mutant-root/known_findings.json
git apply "$PATCH" || { echo "patch does not apply"; exit 2; }
for id in "$@"; do
  out=$(cd /verif && VERIF_ROOT=/tmp/mutant-root ./check.sh "$id" quick 2>&1)
  code=$?
  echo "== $id exit=$code"
  echo "$out" | grep -E "VIOLATION|reason:|INCONCLUSIVE|KNOWN-FINDING|^C[0-9]+:" | cut -c1-400 | head -8
done
git -C /repo checkout -- .
rm -rf /tmp/mutant-root/replays
