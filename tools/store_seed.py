#!/usr/bin/env python3
"""usage: store_seed.py <ID> <out-dir> <round> <caught_by text> [<verify-log-file>]
Copies a confirmed seeded change into /verif/seeded/<name>/ (patch.diff, demo/, meta.json)."""
import json, os, shutil, sys, re
pid, out, rnd, caught = sys.argv[1], sys.argv[2], int(sys.argv[3]), sys.argv[4]
log = open(sys.argv[5]).read() if len(sys.argv) > 5 and os.path.exists(sys.argv[5]) else ""
name = pid if rnd == 1 else "%s-r%d" % (pid, rnd)
dst = "/verif/seeded/" + name
assert os.path.isfile(out + "/patch.diff") and os.path.isfile(out + "/meta.json") and os.path.isdir(out + "/demo"), out
shutil.rmtree(dst, ignore_errors=True)
os.makedirs(dst + "/demo")
shutil.copy(out + "/patch.diff", dst + "/patch.diff")
for f in os.listdir(out + "/demo"):
    if not f.endswith(".log"):
        shutil.copy(os.path.join(out, "demo", f), dst + "/demo/" + f)
meta = json.load(open(out + "/meta.json"))
m = re.search(r"######## %s\n(.*?)(?=\n######## |\nALLDONE|\Z)" % re.escape(pid + ("-r%d" % rnd if rnd > 1 else "")), log, re.S)
json.dump({
    "property": pid, "round": rnd,
    "origin": "independent sub-agent given only the property text and a scratch worktree of /repo; nothing from /verif",
    "summary": meta.get("summary"), "needs_to_manifest": meta.get("needs"), "files_changed": meta.get("files_changed"),
    "author_report": {k: meta.get(k) for k in ("tests_run", "demo_without_change", "demo_with_change")},
    "confirmed_by_me": {"how": "tools/verify_seed.sh in a scratch worktree: demonstration placed as its README says and run without the patch (passes), `git apply patch.diff`, demonstration again (fails), `cargo test --workspace --no-fail-fast --offline` (206 passed, 0 failed)",
                        "log_excerpt": (m.group(1).strip()[:1500] if m else "")},
    "checks_run": "tools/try_mutant.sh seeded/%s/patch.diff %s  (git -C /repo apply; ./check.sh %s quick; git -C /repo checkout -- .)" % (name, pid, pid),
    "caught_by": caught,
}, open(dst + "/meta.json", "w"), indent=1)
print("stored", dst)
