#!/bin/bash
# usage: verify_seed.sh <ID> <seed-dir> <demo-src> <demo-dest-rel> <cargo test args for the demo...>
# Confirms a seeded change in the scratch worktree /tmp/verify: demo passes without the patch, the whole
# existing suite passes with the patch and the demo fails with it. Then runs the registered quick check(s).
set -u
ID="$1"; SEED="$2"; DEMO_SRC="$3"; DEMO_DEST="$4"; shift 4
WT=/tmp/verify
cd $WT || exit 2
git checkout -q -- . && git clean -fdq -e target
mkdir -p "$(dirname "$DEMO_DEST")"; cp "$SEED/$DEMO_SRC" "$DEMO_DEST"
echo "--- demo without the change"
cargo test --offline "$@" 2>&1 | grep -E "^test result|panicked|error(\[|:)" | tail -4
git apply "$SEED/patch.diff" || { echo "PATCH DOES NOT APPLY"; exit 2; }
echo "--- demo with the change"
cargo test --offline "$@" 2>&1 | grep -E "^test result|panicked|error(\[|:)" | tail -4
rm -f "$DEMO_DEST"
echo "--- existing suite with the change"
cargo test --workspace --no-fail-fast --offline 2>&1 | grep -E "^test result|FAILED|failed|error(\[|:)" | awk '{s+=$4; f+=$6} END {print "passed",s,"failed",f}'
git checkout -q -- . && git clean -fdq -e target
echo "--- registered checks against the change"
[ -n "${SKIP_CHECKS:-}" ] || /verif/tools/try_mutant.sh "$SEED/patch.diff" $ID
