#!/usr/bin/env python3
"""usage: seed_table.py <round>  - prints the markdown table of a seeding round from /verif/seeded/*/meta.json"""
import json, sys, os
rnd = int(sys.argv[1])
print("| id | seeded change | result |\n|---|---|---|")
for i in range(1, 21):
    name = "C%02d" % i + ("" if rnd == 1 else "-r%d" % rnd)
    p = "/verif/seeded/%s/meta.json" % name
    if not os.path.exists(p):
        continue
    m = json.load(open(p))
    s = (m.get("summary") or "").replace("|", "/").replace("\n", " ")
    if len(s) > 230:
        s = s[:227] + "..."
    print("| %s | %s | %s |" % (name, s, m["caught_by"].replace("|", "/").replace("\n", " ")))
