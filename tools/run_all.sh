#!/bin/bash
# usage: run_all.sh [tier] ; runs every claimed check once, prints one line each
TIER="${1:-quick}"
cd /verif
for id in $(python3 -c "import json; print(' '.join(c['property_id'] for c in json.load(open('MANIFEST.json'))['checks']))"); do
  s=$(date +%s.%N)
  out=$(./check.sh $id $TIER 2>&1); code=$?
  e=$(date +%s.%N)
  printf "%s exit=%d %.1fs  %s\n" $id $code $(echo "$e - $s" | bc) "$(echo "$out" | grep -E "^C[0-9]+:" | cut -c1-160)"
  echo "$out" | grep -E "VIOLATION|INCONCLUSIVE" | head -3
done
