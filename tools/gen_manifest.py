#!/usr/bin/env python3
"""Generates /verif/MANIFEST.json from the table below (kept in one place so it stays valid)."""
import json, os, subprocess

ROOT = os.path.dirname(os.path.dirname(os.path.abspath(__file__)))

# id -> (technique, level text, level note, design_ref)
CLAIMED = {
    "C08": (
        "exhaustive enumeration + proptest sequences against an independent doc/int.md codec model",
        "Generated-input search: integers enumerated (quick: 8.5M incl. all |v|<2^21 and every length boundary; thorough: all 2^32), "
        "decoder over all byte strings of length 0..3 and the first/last-exhaustive boundary-middle strings of length 4/5, both against an "
        "independent encoder/decoder written from doc/int.md; proptest field sequences written into Vec/ArrayVec/slices of every capacity "
        "with canaries and read back, every strict prefix read. Exhaustive sub-spaces are settled; sequences are sampled.",
        "Trusts the harness's doc/int.md model; sequence part is sampling, not proof.",
        "DESIGN.md 2/C08",
    ),
}

NOT_BUILT_REASON = "check not built yet in this commit (design in DESIGN.md section 2); will be claimed once its module exists"

def main():
    props = [json.loads(l) for l in open(os.path.join(ROOT, "properties.jsonl"))]
    checks, na = [], []
    for p in props:
        pid = p["id"]
        if pid in CLAIMED:
            tech, text, note, ref = CLAIMED[pid]
            checks.append({
                "property_id": pid,
                "quick_cmd": f"./check.sh {pid} quick",
                "thorough_cmd": f"./check.sh {pid} thorough",
                "evidence_file": f"/verif/evidence/{pid}.json",
                "replay_cmd_template": f"./check.sh {pid} quick --replay {{path}}",
                "engine": "harness",
                "level_claimed": {"category": "exploration", "text": text, "design_ref": ref},
                "level_note": note,
                "technique": tech,
            })
        else:
            na.append({"property_id": pid, "reason": NOT_BUILT_REASON})
    hooks_commits = []
    try:
        out = subprocess.run(["git", "-C", "/repo", "log", "--format=%H %s"], capture_output=True, text=True).stdout
        for line in out.splitlines():
            h, s = line.split(" ", 1)
            if s.startswith("verif-hook:"):
                hooks_commits.append(h)
    except Exception:
        pass
    m = {
        "version": 1,
        "setup_cmd": "cd /verif/harness && CARGO_NET_OFFLINE=true cargo build --release --bin check",
        "hooks": {
            "guard": "--cfg libtw2_verif",
            "enable": "RUSTFLAGS='--cfg libtw2_verif' (set in /verif/harness/.cargo/config.toml, applies to the path dependencies on /repo crates)",
            "baseline_off_cmd": "cd /repo && cargo test --workspace --no-fail-fast --offline",
            "source_commits": hooks_commits,
            "add_only": True,
        },
        "engines": [
            {
                "name": "harness",
                "path": "/verif/harness",
                "serves_properties": sorted(CLAIMED.keys()),
                "kind_free_text": "Rust binary driving proptest TestRunner (fixed seed from VERIF_SEED, parallel workers), exhaustive sweeps, panic/fuel capture, shrink -> JSON replay, evidence writer",
            }
        ],
        "checks": checks,
        "not_applicable": na,
        "notes": "All checks: ./check.sh <ID> <tier> rebuilds the harness from /repo's working tree, exit 0 held / 1 VIOLATION / 2 inconclusive. Known findings: /verif/known_findings.json.",
    }
    json.dump(m, open(os.path.join(ROOT, "MANIFEST.json"), "w"), indent=1)
    print("wrote MANIFEST.json:", len(checks), "checks,", len(na), "not_applicable")

main()
