#!/usr/bin/env python3
"""Generates /verif/MANIFEST.json from the table below (kept in one place so it stays valid)."""
import json, os, subprocess

ROOT = os.path.dirname(os.path.dirname(os.path.abspath(__file__)))

# id -> (technique, level text, level note, design_ref)
CLAIMED = {
    "C01": ("stateful PBT (proptest op histories over a two-endpoint simulation) vs reference model of submitted chunks; bounded exhaustive schedule DFS in thorough",
        "Generated histories of application calls and network faults (loss, duplication, reordering, delay, clock) for 0.6+token, 0.6 without token and 0.7, incl. dedicated sequence-wrap histories; every delivered vital chunk must be the next element of the model's submitted list, non-vital chunks must have been sent, Ready at most once and after the acceptor answered. Thorough adds a complete DFS over deliver/drop/dup/tick schedules of a 3-chunk scenario using the clone hook. Sampling of histories: evidence, not proof.",
        "Environment enforces the property's assumptions (<500 unacked, in-flight datagrams expire after 400 sequence numbers, iterators drained). Uses hooks verif_clone/verif_summary.", "DESIGN.md 2/C01"),
    "C02": ("stateful PBT: adversarial generated prefix + harness-executed fair suffix; fuel-based termination oracle; deadline invariant after every op",
        "Same simulation as C01 with chunk sizes over the whole accepted range; after every op the reported deadline must be active while anything is queued/unacked/mid-handshake; every library call runs under a callback-fuel budget (non-termination is reported deterministically); then <= 40 fair rounds (deliver all FIFO, tick at deadline) must reach quiescence: Ready seen, everything delivered and acknowledged, nothing queued.",
        "Bounded liveness under one fair scheduler only; fuel bound 50000 callback invocations per call.", "DESIGN.md 2/C02"),
    "C03": ("PBT non-interference: foreign datagram fed to a clone, fingerprint equality + twin-run equivalence over a generated suffix",
        "Generated (prefix history stopping at every handshake stage or online with queued/unacked data, target side, 1..3 foreign datagrams of every packet kind written with a wrong token / peer datagrams re-written with a wrong token / mutated / random, suffix ops, adversarial secure_random script). Feeding the foreign datagram must yield no event, no outgoing datagram and an identical complete-state fingerprint; the run with and without it must be indistinguishable through the suffix; acceptor tokens must never be reserved values.",
        "State completeness rests on the Debug rendering of the private state (verif_fingerprint hook); 0.6-without-token has no agreed token and is out of scope.", "DESIGN.md 2/C03"),
    "C04": ("stateful PBT over valid API call histories; oracle = library's own reader with collecting warning sink + reference model of queued chunks; exhaustive single-chunk length sweep",
        "Every datagram handed to the send callback in generated histories (lengths 0..5000, blocks of hundreds of tiny chunks without flush, multi-datagram resends, connless, disconnect reasons, sequence wrap) must be <= 1400 bytes, parse without error or warning under the true token mode, carry exactly num_chunks chunks, each bit-identical to the queued payload with the right sequence number; refused sends must leave the connection as live as before (differential fair-suffix on clones); no call may panic. Plus every single chunk length 0..1500/2100 for all variants sent, lost and resent.",
        "Parses with the library's own reader as the property states.", "DESIGN.md 2/C04"),
    "C05": ("exhaustive header enumeration (all bit patterns = all in-range field tuples) + proptest packet values of every kind, write/read round trip",
        "All 2^24 0.6 packet headers, all 0.6/0.7 (non-)vital chunk headers, 0.7 packet header over all values of its bit-field bytes x 8 tokens, 0.7 connless header: canonical patterns (doc/packet.md, doc/packet7.md) unpack without warning, re-pack to themselves and decode to independently computed fields; generated Packet values (connless, every control message x token x ack x close reason, chunk packets from well-formed chunk lists and raw payloads up to the limit, five content families so compression is taken both ways) written and read back with the true token mode: equal value, no warnings; every payload length for two families.",
        "Only ChunksNoChunks is tolerated, for a chunk packet that really has zero chunks and no resend request. Writer preconditions (NUL-free reasons, response token != all-ones) respected.", "DESIGN.md 2/C05"),
    "C06": ("exhaustive short inputs x token hints + proptest structured corruption of valid packets, crafted Huffman bodies and random bytes; oracle = no panic, iterator fuel, slice provenance with canary-guarded scratch buffer, accept => rewrite => same value",
        "Every byte string of length 0..3 x hint {None,false,true} (0.6) and (0.7), 3-byte heads with fixed tails; valid packets of every kind with 0..3 corruptions (bytes, truncation, extension, flags, ack, num_chunks, compression flag toggled, chunk headers, token, control byte); Huffman bodies that expand beyond a packet / are truncated / bit-flipped; random bytes up to 3000. read, read_panic_on_decompression (uncompressed only), decompress_if_needed, is_initial, ChunksIter: never panic, returned slices inside input or scratch window, canaries intact, accepted values can be written and read back equal.",
        "Memory safety beyond the canaries is evaluated by the ASan tier (see C19).", "DESIGN.md 2/C06"),
    "C07": ("exhaustive short inputs + proptest structured inputs; differential vs bundled C++ reference and an independent bit-level model from doc/huffman.md; canary-guarded buffers at every capacity",
        "Round trip for both output forms, exact compressed_len, byte identity with the C++ reference, one-directional decoder agreement with the reference, every capacity for short inputs, mutated/truncated/extended/garbage streams, generated frequency tables (depth <= 24), canaries around all output windows.",
        "Decoder termination is only observable through the wall-clock watchdog (no callback to attach fuel to). Trusts the C++ reference inside its int domain.", "DESIGN.md 2/C07"),
    "C08": ("exhaustive enumeration + proptest sequences against an independent doc/int.md codec model",
        "Integers enumerated (quick: 8.5M incl. all |v|<2^21 and every length boundary; thorough: all 2^32), decoder over all byte strings of length 0..3 and the first/last-exhaustive boundary-middle strings of length 4/5, both against an independent encoder/decoder written from doc/int.md; proptest field sequences written into Vec/ArrayVec/slices of every capacity with canaries and read back, every strict prefix read.",
        "Trusts the harness's doc/int.md model; sequence part is sampling.", "DESIGN.md 2/C08"),
    "C09": ("exhaustive small universe + proptest random pairs; round trip through both wire forms, independent doc-based wire reader, differential vs bundled DDNet C++ reference",
        "All pairs (A,B) over a small key/length/value universe exhaustively plus random pairs up to 1024 items / 64 KiB through RawBuilder and Builder (ordinal + UUID types, types >= 0x8000, pre-agreed and explicit sizes): apply(create(A,B)) == B incl. crc and no warnings, both wire forms, create(A,A), reference builder word-for-word equality, reference delta applied here yields B.",
        "Reference comparison restricted to the domain where the C++ does not abort (types < 0x8000, static sizes only for types < 64).", "DESIGN.md 2/C09"),
    "C10": ("model-based PBT: builder programs vs BTreeMap model, wire round trips, recycle chains",
        "Generated builder programs (ordinal and 0..40 UUID types, duplicates, over-limit adds) predicted by a model; snapshot checked directly, after both wire forms, after recycle + second program, and for snapshots obtained by applying a delta: items(), item() for every key incl. UUID types, absent keys, crc, re-serialization.",
        "Sampling.", "DESIGN.md 2/C10"),
    "C11": ("proptest structured corruption of valid snapshots/deltas in both wire forms + exhaustive single-word/byte sweeps + random words/bytes; oracle = no panic, callback fuel, per-thread counting allocator bound, independent reference reader, follow-up operations; stateful PBT of hostile-server message histories against the client Manager/Storage",
        "Snapshots and deltas from an independent writer (ordinal, registry, extended, >= 0x8000 types, duplicate keys, registry id ladders, near 1024 items / 64 KiB) with 0..3 corruptions of structural fields to boundary values, truncations, inserts; every word x ~55 values and every truncation of a small valid input; random noise. Every parser call and apply: no panic, peak allocation <= 64 x input + 64 KiB, accept/reject agrees with a reference reader from doc/snapshot.md; accepted snapshots: <= 1024 items, <= 64 KiB, write/read equal, items/item/crc, create/apply against empty and other accepted snapshots, recycle + add_item + finish. Section manager_hostile_server: histories of empty/single/multi-part snapshot messages with honest or hostile ticks, base ticks, checksums, part bookkeeping and delta bodies (incl. bodies reaching 1024 items / 64 KiB) and resets fed to snapshot::Manager: every call returns within fuel and the allocation bound, a snapshot is handed out only for a body the reference reader accepts applied to a base handed out before, with the announced checksum, strictly newer tick, ack_tick naming it; errors never move ack_tick to the refused tick.",
        "One open known finding (Delta::create on parsed snapshots with mismatched sizes) excludes that pair class.", "DESIGN.md 2/C11"),
    "C12": ("exhaustive permutations/interleavings for small part counts + proptest schedules; reference model of the receiver contract; twin-run without old-tick messages",
        "Every permutation and single duplication of up to 5 (7) parts, every interleaving of an older and a newer transfer, every data length 0..28800, and generated multi-transfer schedules with duplicates and hostile old-tick messages: exactly-once hand-out with original tick/base/crc/data, no warning on consistent transfers, old ticks never complete or disturb.",
        "Sampling above the exhaustive bounds.", "DESIGN.md 2/C12"),
    "C13": ("closed-loop stateful PBT (server storage API + lossy channel + client manager) vs ground-truth world states",
        "Generated world histories (ordinal and UUID items, multi-part deltas, crc-neutral changes) and per-message fates (deliver, drop, duplicate, delay) for snapshots and acks incl. acks for dropped snapshots and long ack blackouts; every accepted snapshot must equal the sender's snapshot for that tick item for item and in crc, errors never advance ack_tick, no panic on either side; a second section corrupts crc fields.",
        "Sender follows server/src/main.rs's call sequence. One open known finding restricts UUID item sizes.", "DESIGN.md 2/C13"),
    "C14": ("spec-driven PBT: run-time interpreter of the four JSON protocol descriptions generates canonical encodings and single constraint violations for every codec; exhaustive boundary and id sweeps",
        "All 379 message/object codecs of the four protocol crates: every (codec, member, boundary value) exhaustively, all ids, plus generated value vectors with mutations and raw byte/word streams, checked against an independent model of the member kinds (accept+re-encode identical / excess-data warning / reject / no panic).",
        "Model written from gamenet/generate/datatypes.py and doc/int.md; 4 open known findings (bool members of snapshot objects) exclude only the encode() word comparison for those objects.", "DESIGN.md 2/C14"),
    "C15": ("exhaustive size/tick/header sweeps + proptest chunk sequences and typed world histories; round trip through in-memory demo files",
        "Every compressed size 1..300 x chunk kind, tick gaps around the inline-delta limit, every header string length; generated raw chunk sequences (payloads aimed at the 29/30, 255/256, 65535 boundaries) and typed ddnet world histories across key-frame intervals with refused ticks and failed snaps: reader returns the same sequence / object sets, no warnings, refusals do not panic and leave the recording usable.",
        "One open known finding restricts UUID object sizes in typed histories.", "DESIGN.md 2/C15"),
    "C16": ("independent datafile/map writer + exhaustive single-field corruption, truncation, structural mutation, random bytes; totality oracle with iterator fuel; exact read-back for well-formed files",
        "Well-formed v3/v4/v4-crude files (raw, hand-rolled stored-deflate and libz data) read back exactly through three open paths; every header/type/offset/size/item-header field set to ~60 boundary values, every truncation, multi-mutations, random bytes, and for maps every item word set to ~40 values: open + every accessor returns value or error, never panics or loops, and every image/envelope/sound/layer/data index an accepted map item hands out lies inside the item-type range or data count it refers to; the datafile accessors of every accepted file agree with each other (items/item/item_type_indices/item_type_items/find_item), a data block's bytes do not depend on the order of (failed) reads and have the declared uncompressed size.",
        "Uncompressed sizes above 16 MiB are not read (resource exhaustion is out of scope).", "DESIGN.md 2/C16"),
    "C17": ("metamorphic PBT over read-callback fragmentations + independent doc-based tick/position model; exhaustive 2- and 3-piece splits of a fixed all-kinds stream",
        "Generated server histories (all message kinds, extensions, implicit/explicit ticks, wraps) read in one piece, byte by byte, under generated schedules and every two-piece split must give identical items; items must nest in strictly increasing ticks equal to the doc pseudo-code's numbers; positions/inputs equal running wrapping sums; truncated/mutated/random streams: items or error, no panic, fuel on callbacks.",
        "Uses the verif module hook exposing the incremental reader.", "DESIGN.md 2/C17"),
    "C18": ("model server + exhaustive truncations/byte patches/numeric sweeps + proptest hostile datagrams; exhaustive arrival sequences and generated merge schedules vs model",
        "All thirteen response kinds: every truncation, byte patch and boundary value of every numeric field, generated hostile datagrams: value or nothing, never a panic, returned data inside the datagram and sane. Merging: every arrival sequence up to length 5-7 and generated schedules up to 64 parts (extended infos with generated packet sizes, legacy 64-player infos cut evenly and unevenly down to one client per part): complete iff every part merged, result equals the model's client set.",
        "One open known finding (merge does not record received parts) removes repeated parts from generated schedules.", "DESIGN.md 2/C18"),
    "C19": ("model-based stateful PBT over view trees on every backing store with canary-guarded memory + exhaustive small-capacity sweeps; ASan replay of all checks in the thorough tier",
        "Generated histories (write, extend incl. endless/panicking iterators, nested views to depth 4, cap_at below/at/above capacity, readers, raw advance, early exits, unwinding) on Vec, ArrayVec, slice, slice reference; exhaustive sweep of every capacity 0..64 x pre-existing length x caps x write lengths. Model = linear byte string + limit per view: remaining(), initialized() and the container length after release must match exactly, nothing outside the window is touched.",
        "Memory-safety half: quick tier = canaries; thorough tier replays the quick case lists of all checks and the fuzz corpora under AddressSanitizer (tools/asan_replay.sh).", "DESIGN.md 2/C19"),
    "C20": ("stateful PBT: one Net<u8> vs independent per-address reference connections fed the projected sub-history (differential) + peer-table model",
        "Generated histories over an accepting / non-accepting Net and 4 remote addresses (realistic remote connections incl. vanilla clients, drops, cross-fed datagrams, garbage; connect/accept/reject/ignore/send/flush/disconnect/send_connless/tick). After every op: events, outgoing datagrams and their destination address, send results and the deadline must equal those of an independent single Connection per address with the same clock and per-address random stream; pending peers appear only for connect requests on an accepting endpoint; live peer ids distinct; peers gone after disconnect/reject/ignore/remote close; no panic.",
        "Differential against libtw2's own Connection (whose behaviour is C01-C04's subject). accept/reject happen before further datagrams of that address are fed, as in the in-repo callers.", "DESIGN.md 2/C20"),
}

NOT_BUILT_REASON = "check not built yet in this commit (design in DESIGN.md section 2); will be claimed once its module exists"

def main():
    props = [json.loads(l) for l in open(os.path.join(ROOT, "properties.jsonl"))]
    checks, na = [], []
    for p in props:
        pid = p["id"]
        if pid in CLAIMED:
            tech, text, note, ref = CLAIMED[pid]
            checks.append({
                "property_id": pid,
                "quick_cmd": f"./check.sh {pid} quick",
                "thorough_cmd": f"./check.sh {pid} thorough",
                "evidence_file": f"/verif/evidence/{pid}.json",
                "replay_cmd_template": f"./check.sh {pid} quick --replay {{path}}",
                "engine": "harness",
                "level_claimed": {"category": "exploration", "text": text, "design_ref": ref},
                "level_note": note,
                "technique": tech,
            })
        else:
            na.append({"property_id": pid, "reason": NOT_BUILT_REASON})
    hooks_commits = []
    try:
        out = subprocess.run(["git", "-C", "/repo", "log", "--format=%H %s"], capture_output=True, text=True).stdout
        for line in out.splitlines():
            h, s = line.split(" ", 1)
            if s.startswith("verif-hook:"):
                hooks_commits.append(h)
    except Exception:
        pass
    m = {
        "version": 1,
        "setup_cmd": "cd /verif/harness && CARGO_NET_OFFLINE=true cargo build --release --bin check",
        "hooks": {
            "guard": "--cfg libtw2_verif",
            "enable": "RUSTFLAGS='--cfg libtw2_verif' (set in /verif/harness/.cargo/config.toml, applies to the path dependencies on /repo crates)",
            "baseline_off_cmd": "cd /repo && cargo test --workspace --no-fail-fast --offline",
            "source_commits": hooks_commits,
            "add_only": True,
        },
        "engines": [
            {
                "name": "harness",
                "path": "/verif/harness",
                "serves_properties": sorted(CLAIMED.keys()),
                "kind_free_text": "Rust binary driving proptest TestRunner (fixed seed from VERIF_SEED, parallel workers), exhaustive sweeps, panic/fuel capture, shrink -> JSON replay, evidence writer",
            }
        ],
        "checks": checks,
        "not_applicable": na,
        "notes": "All checks: ./check.sh <ID> <tier> rebuilds the harness from /repo's working tree, exit 0 held / 1 VIOLATION / 2 inconclusive. Known findings: /verif/known_findings.json.",
    }
    json.dump(m, open(os.path.join(ROOT, "MANIFEST.json"), "w"), indent=1)
    print("wrote MANIFEST.json:", len(checks), "checks,", len(na), "not_applicable")

main()
